//! C08 (slice) — no panic, abort or hang on storage-fault images of sources.
//!
//! A run takes one valid source (a real-world corpus file, or a generated module set)
//! and a batch of storage-fault images of it: truncation at any byte (also inside a
//! multi-byte character, a comment, a string), single-bit flips, 512-byte sector
//! zero-fill / duplication / swap, and splices of two files. Each image is delivered
//! either as a literal or as a file read through the simulated disk (where truncation,
//! bit flips and zero-fill are applied by the seam at read time, to the bytes in
//! flight), compiled with both backends, and every returned error and warning is
//! rendered (Display and contextualize). The operation must return normally.

use crate::core::{Env, Outcome, Scenario, Tier};
use crate::gen::{self, GenCfg};
use crate::rng::{fnv1a, mix, Rng};
use crate::shim::{self, Fault};
use crate::sim::{self, SimCfg};
use crate::sut::{self, BackendSel, BuilderPath, RasnCfg, Src};
use serde::{Deserialize, Serialize};
use serde_json::{json, Value};

#[derive(Clone, Debug, Serialize, Deserialize, PartialEq)]
pub enum Base {
    Corpus(String),
    Text(String),
}

#[derive(Clone, Debug, Serialize, Deserialize, PartialEq)]
pub enum Image {
    Truncate { at: usize },
    BitFlip { at: usize, bit: u8 },
    SectorZero { sector: usize },
    SectorDup { sector: usize },
    SectorSwap { a: usize, b: usize },
    /// first `at` bytes of the base, then the other file from byte `from`
    Splice { at: usize, from: usize },
    /// the unmodified source (control)
    Identity,
}

#[derive(Clone, Debug, Serialize, Deserialize, PartialEq)]
pub struct Case {
    pub image: Image,
    /// delivered as a file through the simulated disk (else as a literal)
    pub file: bool,
}

#[derive(Clone, Debug, Serialize, Deserialize, PartialEq)]
pub struct Plan {
    pub seed: u64,
    pub base: Base,
    pub other: Option<Base>,
    pub cases: Vec<Case>,
    pub stack_kb: usize,
    pub entropy: u64,
    /// images longer than this are cut (quick: 48 KB, thorough: 160 KB)
    pub max_image: usize,
    /// configuration of the rasn backend for this run (None = the default configuration)
    #[serde(default)]
    pub cfg: Option<RasnCfg>,
}

const SECTOR: usize = 512;
const NOTATION_SAMPLES: &str = include_str!("../samples/notation.asn");
/// 74 one-purpose modules, one per notation of X.680–X.683 that the compiler accepts (subtype
/// elements, exception markers, value forms, classes / objects / object sets, parameterization,
/// tags, useful types, deep nesting): valid, compiles with warnings on both backends
const NOTATION_SAMPLES2: &str = include_str!("../samples/notation2.asn");
/// 65 modules with reference cycles of every kind the notation allows one to write down: type
/// aliases, value references, COMPONENTS OF, selection types, INCLUDES, object sets, objects,
/// classes, parameterized types, object identifiers, imports — syntactically valid, compiles
/// (with warnings) on both backends
const CYCLE_SAMPLES: &str = include_str!("../samples/cycles.asn");
/// 42 small inputs in valid X.680–X.683 notation, most of which the compiler does not accept
/// (value forms, exception markers, encoding instructions, qualified value and class references,
/// …), separated by a marker line; each is a base of its own: whatever is made of it, the
/// answer is Ok, Err or a warning, never a crash
const UNSUPPORTED_SAMPLES: &str = include_str!("../samples/unsupported.asn");
/// 68 small inputs with boundary literals in every literal position (values, DEFAULTs, range and
/// size bounds, tag numbers, enumeral and named numbers, named bits, OID arcs, version numbers,
/// REAL values in decimal, mantissa/base/exponent and special form, empty / odd / long bit and
/// hex strings, character tuples and quadruples, time strings): 2^63, 2^64, 2^127, 2^128, 10^40,
/// 10^400, the exact ends of i64 / u64 / i128, inverted and degenerate ranges, f64 overflow and
/// underflow. Same marker-separated format; each sample is a base of its own
const LITERAL_SAMPLES: &str = include_str!("../samples/literals.asn");

fn base_bytes(b: &Base) -> Vec<u8> {
    match b {
        Base::Corpus(p) => std::fs::read(p).unwrap_or_default(),
        Base::Text(t) => t.clone().into_bytes(),
    }
}

pub fn apply(img: &Image, base: &[u8], other: &[u8]) -> Vec<u8> {
    let n = base.len();
    let mut v = base.to_vec();
    match img {
        Image::Identity => {}
        Image::Truncate { at } => v.truncate((*at).min(n)),
        Image::BitFlip { at, bit } => {
            if n > 0 {
                v[*at % n] ^= 1 << (bit % 8);
            }
        }
        Image::SectorZero { sector } => {
            let s = sector * SECTOR;
            if s < n {
                let e = (s + SECTOR).min(n);
                for b in &mut v[s..e] {
                    *b = 0;
                }
            }
        }
        Image::SectorDup { sector } => {
            let s = sector * SECTOR;
            if s < n {
                let e = (s + SECTOR).min(n);
                let dup = v[s..e].to_vec();
                let mut w = v[..e].to_vec();
                w.extend_from_slice(&dup);
                w.extend_from_slice(&v[e..]);
                v = w;
            }
        }
        Image::SectorSwap { a, b } => {
            let (sa, sb) = (a * SECTOR, b * SECTOR);
            if sa + SECTOR <= n && sb + SECTOR <= n && sa != sb {
                for i in 0..SECTOR {
                    v.swap(sa + i, sb + i);
                }
            }
        }
        Image::Splice { at, from } => {
            v.truncate((*at).min(n));
            if *from < other.len() {
                v.extend_from_slice(&other[*from..]);
            }
        }
    }
    v
}

/// faults that make the seam deliver `img` of the stored (unmodified) file, if expressible
fn seam_faults(img: &Image, n: usize) -> Option<Vec<Fault>> {
    match img {
        Image::Truncate { at } if *at < n && *at >= 1 => Some(vec![
            Fault { cls: shim::C_READ, ord: 0, kind: shim::F_SHORT, a: *at as u64, b: 0 },
            Fault { cls: shim::C_READ, ord: 1, kind: shim::F_EOF, a: 0, b: 0 },
        ]),
        Image::Truncate { at } if *at == 0 => Some(vec![Fault { cls: shim::C_READ, ord: 0, kind: shim::F_EOF, a: 0, b: 0 }]),
        Image::BitFlip { at, bit } if n > 0 => Some(vec![Fault { cls: shim::C_READ, ord: 0, kind: shim::F_FLIP, a: (*at % n) as u64, b: 1u64 << (bit % 8) }]),
        Image::SectorZero { sector } if sector * SECTOR < n => Some(vec![Fault { cls: shim::C_READ, ord: 0, kind: shim::F_ZERO, a: (sector * SECTOR) as u64, b: SECTOR as u64 }]),
        Image::Identity => Some(vec![]),
        _ => None,
    }
}

fn parse_plan(v: &Value) -> Plan {
    serde_json::from_value(v.clone()).expect("c08 plan")
}

pub struct C08Images;

impl Scenario for C08Images {
    fn property(&self) -> &'static str {
        "C08"
    }
    fn name(&self) -> &'static str {
        "images"
    }
    fn runs(&self, tier: Tier) -> u64 {
        match tier {
            Tier::Quick => 2400,
            Tier::Thorough => 60000,
        }
    }
    fn crash_is_violation(&self) -> bool {
        true
    }
    fn cpu_budget_secs(&self) -> u64 {
        // outer bound for a whole batch; the effective budget is re-armed per image (see execute)
        7200
    }

    fn plan(&self, seed: u64, idx: u64, tier: Tier, env: &Env) -> Value {
        let root = Rng::new(seed);
        let mut w = root.fork("workload");
        let corpus_turn = !env.corpus.is_empty() && idx % 4 != 3;
        let base = if idx % 8 == 7 {
            // a hand-written base using notation the generator does not produce: one run in
            // four of these takes one of the three large files (notation, notation 2, cycles),
            // the others walk the small one-purpose inputs (unsupported notation, boundary
            // literals), so that the quick tier reaches every one of them at least twice
            let j = idx as usize / 8;
            if j % 4 == 0 {
                match (j / 4) % 3 {
                    0 => Base::Text(NOTATION_SAMPLES.to_string()),
                    1 => Base::Text(NOTATION_SAMPLES2.to_string()),
                    _ => Base::Text(CYCLE_SAMPLES.to_string()),
                }
            } else {
                let small: Vec<&str> = UNSUPPORTED_SAMPLES.split("\n-- @@ --\n").chain(LITERAL_SAMPLES.split("\n-- @@ --\n")).collect();
                Base::Text(small[(j - j / 4 - 1) % small.len()].to_string())
            }
        } else if corpus_turn {
            // systematic walk: every corpus file is a base several times per tier
            Base::Corpus(env.corpus[(idx as usize - idx as usize / 4) % env.corpus.len()].clone())
        } else {
            // valid generated sets with every notation knob of the generator drawn at random
            // (classes / objects, templates, COMPONENTS OF, REAL members, recursion, import-heavy
            // sets, definitions that compile with warnings): all of them valid bases
            let mut cfg = GenCfg::default_cfg();
            cfg.modules = (1, 3);
            cfg.assigns = (1, 12);
            cfg.classes = w.chance(1, 2);
            cfg.components_of = w.chance(1, 2);
            cfg.real_components = w.chance(1, 2);
            cfg.recursion_bias = w.chance(1, 3);
            cfg.value_import_bias = w.chance(1, 3);
            cfg.intra_shared_enumerals = w.chance(1, 2);
            cfg.warnful = w.chance(1, 3);
            cfg.echo_inner_names = w.chance(1, 3);
            if cfg.value_import_bias {
                cfg.modules = (3, 4);
            }
            Base::Text(gen::generate(&mut w, &cfg).concat())
        };
        let other = if !env.corpus.is_empty() { Some(Base::Corpus(w.pick(&env.corpus).clone())) } else { None };
        let n = base_bytes(&base).len();
        let on = other.as_ref().map_or(0, |o| base_bytes(o).len());
        let sectors = n.div_ceil(SECTOR).max(1);
        let literal_positions: Vec<usize> = {
            let b = base_bytes(&base);
            let mut v = vec![];
            let mut i = 0;
            while i < b.len() {
                if b[i] == b'\'' || b[i] == b'"' {
                    let q = b[i];
                    if let Some(len) = b[i + 1..].iter().take(80).position(|c| *c == q) {
                        for k in i + 1..i + 1 + len {
                            v.push(k);
                        }
                        i += len + 2;
                        continue;
                    }
                } else if b[i].is_ascii_digit() {
                    v.push(i);
                }
                i += 1;
            }
            v
        };
        let mut f = root.fork("faults");
        let mut cases = vec![];
        let k = match tier {
            Tier::Quick => 24,
            Tier::Thorough => 48,
        };
        // thorough tier: every prefix of small generated sources, in slices of the run index
        let exhaustive_prefixes = tier == Tier::Thorough && !corpus_turn && n <= 4096;
        if exhaustive_prefixes {
            for at in 0..=n {
                cases.push(Case { image: Image::Truncate { at }, file: at % 5 == 0 });
            }
        }
        if tier == Tier::Thorough && idx % 8 == 7 && (idx / 8) % 4 == 0 {
            // notation samples: a stratified walk over the prefixes, shifted by the run index
            for j in 0..200usize {
                cases.push(Case { image: Image::Truncate { at: (j * n / 200 + (idx as usize / 32)) % (n + 1) }, file: j % 5 == 0 });
            }
        }
        // the unmodified base first: a valid source must compile without a crash to begin with
        cases.push(Case { image: Image::Identity, file: f.chance(1, 2) });
        for j in 0..k {
            let image = match f.below(12) {
                0..=4 => {
                    // truncation: anywhere, with a bias to the last bytes (EOF handling)
                    let at = if f.chance(1, 4) { n.saturating_sub(f.below(12)) } else { f.below(n + 1) };
                    Image::Truncate { at }
                }
                5 | 6 => {
                    // half of the flips land inside quoted literals ('0101'B, 'AF'H, "text") and
                    // numbers, where one changed digit can turn a literal into an ill-formed one
                    let at = if !literal_positions.is_empty() && f.chance(1, 2) { *f.pick(&literal_positions) } else { f.below(n.max(1)) };
                    Image::BitFlip { at, bit: f.below(8) as u8 }
                }
                7 => Image::SectorZero { sector: f.below(sectors) },
                8 => Image::SectorDup { sector: f.below(sectors) },
                9 => Image::SectorSwap { a: f.below(sectors), b: f.below(sectors) },
                10 => Image::Splice { at: f.below(n + 1), from: f.below(on + 1) },
                _ => {
                    if j == 0 {
                        Image::Identity
                    } else {
                        Image::Truncate { at: f.below(n + 1) }
                    }
                }
            };
            cases.push(Case { image, file: f.chance(2, 5) });
        }
        let p = Plan { seed, base, other, cases, stack_kb: *root.fork("layout").pick(&[2048usize, 8192]), entropy: root.fork("hashkeys").next_u64(), max_image: if tier == Tier::Quick { 48 * 1024 } else { 160 * 1024 }, cfg: { let mut c = root.fork("config"); if c.chance(1, 2) { Some(RasnCfg::random(&mut c)) } else { None } } };
        serde_json::to_value(&p).unwrap()
    }

    fn execute(&self, plan: &Value, _refs: &Value, root: &str, _env: &Env) -> Outcome {
        let p = parse_plan(plan);
        let mut out = Outcome::default();
        std::env::remove_var("CARGO");
        std::env::set_var("CARGO_HOME", format!("{root}/cargo-home"));
        // size cap (see the non-termination detector below): an over-long source takes part
        // with its first max_image bytes only, a splice appends at most max_image bytes
        let mut base = base_bytes(&p.base);
        base.truncate(p.max_image);
        let other = p.other.as_ref().map(base_bytes).unwrap_or_default();
        let base_name = match &p.base {
            Base::Corpus(pth) => format!("corpus:{}", pth.rsplit('/').next().unwrap_or("")),
            Base::Text(t) => format!("generated:{}B", t.len()),
        };
        // every option of the rasn backend is a code path of its own: half of the runs draw one
        let backends = [BackendSel::Rasn(p.cfg.clone().unwrap_or_else(RasnCfg::default_cfg)), BackendSel::Ts];
        let mut digest = String::new();
        for (ci, case) in p.cases.iter().enumerate() {
            let other_view: &[u8] = match &case.image {
                Image::Splice { from, .. } => &other[..(*from + p.max_image).min(other.len())],
                _ => &other[..],
            };
            let image = apply(&case.image, &base, other_view);
            // Non-termination detector. The block-comment scanner of the lexer is quadratic in
            // the length of an unterminated comment (measured: ~100 s CPU for 95 KB in this
            // build), which is slow but terminates - not a violation. Images are capped in size
            // and the CPU budget of one image is 60 s + 1200 s * (n / 100 KB)^2, i.e. at least
            // five times above that known worst case; only exceeding it counts as a hang.
            debug_assert!(image.len() <= 2 * p.max_image + SECTOR);
            let n = image.len() as f64 / 100_000.0;
            crate::proc::set_cpu_budget_from_now(60 + (1200.0 * n * n) as u64);
            let text_lossy = String::from_utf8_lossy(&image).into_owned();
            let seam = if case.file { seam_faults(&case.image, base.len()) } else { None };
            // stored bytes: the unmodified file when the seam applies the fault in flight,
            // else the faulted image itself
            let path = format!("{root}/c{ci}.asn1");
            let srcs: Vec<Src> = if case.file {
                std::fs::write(&path, if seam.is_some() { &base } else { &image }).unwrap();
                vec![Src::Path(path.clone())]
            } else {
                vec![Src::Literal(text_lossy.clone())]
            };
            let render = text_lossy.clone();
            // contextualize() is only called with `render` when the bytes the seam delivered are
            // the bytes `render` was computed from. Each backend gets a simulation of its own, so
            // that call ordinals (and with them the in-flight faults) start from zero for both.
            let expect_first: Option<i64> = seam.as_ref().map(|_| match &case.image {
                Image::Truncate { at } => (*at).min(base.len()) as i64,
                _ => base.len() as i64,
            });
            let mut rs: Vec<sut::CompileOut> = vec![];
            let mut died = false;
            for (bi, be) in backends.iter().enumerate() {
                let mut cfg = SimCfg::simple(p.seed ^ ci as u64 ^ ((bi as u64) << 32));
                cfg.stack_kb = p.stack_kb;
                cfg.entropy = p.entropy.wrapping_add(ci as u64 * 2 + bi as u64);
                cfg.faults = seam.clone().unwrap_or_default();
                let (be, srcs, render) = (be.clone(), srcs.clone(), render.clone());
                let body: sim::Body<sut::CompileOut> = Box::new(move || {
                    sim::op_begin("compile+render");
                    let gate = || match expect_first {
                        None => true,
                        Some(exp) => {
                            let log = shim::log_text();
                            let reads: Vec<i64> = shim::parse_log(&log).iter().filter(|e| e.call == "read").map(|e| e.res).collect();
                            (exp > 0 && reads == vec![exp, 0]) || (exp == 0 && reads == vec![0])
                        }
                    };
                    let r = sut::compile_to_string_render_gated(&be, &srcs, &BuilderPath::default(), &[render.clone()], &gate);
                    sim::op_end("compile+render");
                    r
                });
                let (mut results, rep) = sim::run_sim(&cfg, None, root, vec![body]);
                out.steps += rep.sched.steps + rep.events.len() as u64;
                if rep.unmodelled > 0 || rep.overflow {
                    out.harness_error = Some(format!("shim: {} un-modelled calls, overflow={}", rep.unmodelled, rep.overflow));
                }
                match results.pop().flatten() {
                    Some(r) => rs.push(r),
                    None => died = true,
                }
            }
            let _ = std::fs::remove_file(&path);
            if died {
                out.harness_error = Some("sim thread died outside catch_unwind".into());
                continue;
            }
            let nontrivial = image != base;
            out.count("images", 1);
            out.count(&format!("image.{}", image_kind(&case.image)), 1);
            if case.file {
                out.count(if seam.is_some() { "delivery.file_fault_applied_by_seam" } else { "delivery.file_stored_image" }, 1);
            } else {
                out.count("delivery.literal", 1);
            }
            if std::str::from_utf8(&image).is_err() {
                out.count("probe.image_not_utf8", 1);
            }
            for (bi, r) in rs.iter().enumerate() {
                digest.push_str(&format!("{ci}.{bi}:{};", r.brief().replace(root, "<ROOT>")));
                if let Some(pn) = &r.panic {
                    out.violate(
                        "no-panic",
                        format!("panic at {pn} | backend={} base={base_name} image={:?} delivered as {}", backends[bi].short(), case.image, if case.file { "file" } else { "literal" }),
                    );
                } else if r.ok {
                    out.count(if r.warnings.is_empty() { "result.ok" } else { "result.ok_with_warnings" }, 1);
                } else {
                    out.count(&format!("result.err.{}", r.err_kind.clone().unwrap_or_default()), 1);
                    if r.report.as_ref().is_some_and(|rp| rp.offset >= text_lossy.len()) {
                        out.count("probe.error_reported_at_eof", 1);
                    }
                }
            }
            if nontrivial {
                out.sigs.push(mix(fnv1a(&base), fnv1a(format!("{:?}{}", case.image, case.file).as_bytes())));
            }
        }
        out.log_hash = fnv1a(digest.as_bytes());
        out.sample = Some(json!({"base": base_name, "bytes": base.len(), "stack_kb": p.stack_kb, "images": p.cases.iter().take(6).map(|c| format!("{:?} file={}", c.image, c.file)).collect::<Vec<_>>() }));
        out
    }

    fn shrink(&self, plan: &Value) -> Vec<Value> {
        let p = parse_plan(plan);
        let mut out = vec![];
        if p.cases.len() > 1 {
            // halves first, then single cases
            let h = p.cases.len() / 2;
            for part in [p.cases[..h].to_vec(), p.cases[h..].to_vec()] {
                let mut q = p.clone();
                q.cases = part;
                out.push(serde_json::to_value(&q).unwrap());
            }
            for i in 0..p.cases.len().min(64) {
                let mut q = p.clone();
                q.cases = vec![p.cases[i].clone()];
                out.push(serde_json::to_value(&q).unwrap());
            }
        } else if p.cases.len() == 1 && p.cases[0].file {
            let mut q = p.clone();
            q.cases[0].file = false;
            out.push(serde_json::to_value(&q).unwrap());
        }
        out
    }

    /// panics are keyed by source file + message (not line numbers), so that unrelated
    /// edits do not turn an old finding into a new alarm
    fn finding_key(&self, _plan: &Value, v: &crate::core::Violation) -> String {
        if v.oracle == "no-panic" {
            let site = v.msg.split(" | ").next().unwrap_or("");
            let site = site.trim_start_matches("panic at ");
            let file = site.split(':').next().unwrap_or("");
            let msg = site.splitn(3, ':').nth(2).unwrap_or("").trim();
            let msg: String = msg.chars().map(|c| if c.is_ascii_digit() { '#' } else if c == ' ' { '_' } else { c }).take(60).collect();
            let file = file.rsplit("rasn-compiler/src/").next().unwrap_or(file);
            return format!("panic:{file}:{msg}");
        }
        v.oracle.clone()
    }
}

fn image_kind(i: &Image) -> &'static str {
    match i {
        Image::Truncate { .. } => "truncate",
        Image::BitFlip { .. } => "bitflip",
        Image::SectorZero { .. } => "sector_zero",
        Image::SectorDup { .. } => "sector_dup",
        Image::SectorSwap { .. } => "sector_swap",
        Image::Splice { .. } => "splice",
        Image::Identity => "identity",
    }
}
