//! C10 — no definition is lost silently; warnings are local; Err carries nothing.
//!
//! Definition-level fault injection against a fault-free reference run. Faults:
//!  * buggify, generator stage: generating bindings for definition `d` fails (hook);
//!  * buggify, validator stage: validating `d` fails (hook);
//!  * input-level: `d` replaced by a parseable but unsupported definition of the same
//!    name (REAL, VideotexString, inverted range) or, for unreferenced `d`, by a MACRO;
//!  * lexer-level: one module of several does not lex — the whole result must be Err.
//! Attribution of output items to definitions is learned by leave-one-out compilation in
//! the reference child, so the harness holds no copy of the compiler's naming rules.

use crate::core::{Env, Outcome, Scenario, Tier};
use crate::gen::{self, AKind, GenCfg, ModuleSet};
use crate::proj::{self, ModBlock};
use crate::rng::{fnv1a, mix, Rng};
use crate::sim::{self, SimCfg};
use crate::sut::{self, BackendSel, BuilderPath, CompileOut, Src};
use serde::{Deserialize, Serialize};
use serde_json::{json, Value};
use std::collections::{BTreeMap, BTreeSet};

#[derive(Clone, Debug, Serialize, Deserialize, PartialEq)]
pub enum DFault {
    BuggifyGenerate { module: usize, assign: usize },
    BuggifyValidate { module: usize, assign: usize },
    /// `verif::buggify("link", name)`: linking of the definition fails at once (a LinkerError
    /// warning that names it; the definition stays as the lexer left it)
    BuggifyLink { module: usize, assign: usize },
    /// kind: "REAL" | "VideotexString" | "inverted-range" | "MACRO"
    Replace { module: usize, assign: usize, kind: String },
    LexGarbage { module: usize },
    /// a lexer failure located exactly at the END OF A SOURCE: kind "missing-end" (module cut
    /// after its last complete assignment), "stray-after-end" (text after the last END),
    /// "header-cut" (a further module header cut short after the last END)
    LexAtEnd { module: usize, kind: String },
}

#[derive(Clone, Debug, Serialize, Deserialize, PartialEq)]
pub struct Plan {
    pub seed: u64,
    pub set: ModuleSet,
    pub backend: BackendSel,
    pub faults: Vec<DFault>,
    pub one_literal: bool,
    pub sim: SimCfg,
    /// the sources reach the compiler as FILES through the simulated disk and the typestate
    /// builder is driven the way `bp` says (a definition must not be lost because of HOW its
    /// source was handed over either)
    #[serde(default)]
    pub files: bool,
    #[serde(default)]
    pub bp: BuilderPath,
}

#[derive(Clone, Debug, Default, Serialize, Deserialize)]
pub struct Ref {
    pub r0: CompileOut,
    /// per module: block name
    pub block_name: Vec<Option<String>>,
    /// per module: assignment name -> identifiers of the items it produces
    pub attribution: Vec<BTreeMap<String, BTreeSet<String>>>,
    /// per module: assignment name -> every identifier that vanishes when it is left out
    /// (including items of its dependents)
    #[serde(default)]
    pub raw: Vec<BTreeMap<String, BTreeSet<String>>>,
}

fn parse_plan(v: &Value) -> Plan {
    serde_json::from_value(v.clone()).expect("c10 plan")
}

fn srcs_of_ext(set: &ModuleSet, one: bool, garbage: &[usize], at_end: &[(usize, String)]) -> Vec<Src> {
    let mut texts = set.texts();
    for (mi, kind) in at_end {
        if let Some(t) = texts.get_mut(*mi) {
            match kind.as_str() {
                "missing-end" => {
                    let r = set.modules[*mi].render(&set.modules);
                    let cut = r.assigns.last().map(|s| s.end).unwrap_or(r.header.end);
                    t.truncate(cut);
                    t.push('\n');
                }
                "stray-after-end" => t.push_str("stray text after the end\n"),
                _ => t.push_str("Next-Module DEFINITIONS AUTO"),
            }
        }
    }
    for g in garbage {
        if let Some(t) = texts.get_mut(*g) {
            // directly after the module header, in front of the first assignment: no
            // construct (MACRO body, comment, string) can swallow it there
            let at = set.modules[*g].render(&set.modules).header.end;
            t.insert_str(at, " ::= `?? ");
        }
    }
    if one {
        vec![Src::Literal(texts.join("\n"))]
    } else {
        texts.into_iter().map(Src::Literal).collect()
    }
}

fn srcs_of(set: &ModuleSet, one: bool, garbage: &[usize]) -> Vec<Src> {
    srcs_of_ext(set, one, garbage, &[])
}

/// names of assignments that depend (transitively) on `name` of module `mi`
pub fn dependents(set: &ModuleSet, mi: usize, name: &str) -> BTreeSet<(usize, String)> {
    let mut out: BTreeSet<(usize, String)> = BTreeSet::new();
    let mut todo = vec![(mi, name.to_string())];
    while let Some((m, n)) = todo.pop() {
        let qualified = format!("{}.{}", set.modules[m].name, n);
        for (mj, other) in set.modules.iter().enumerate() {
            let imports_it = other.imports.iter().any(|i| i.from == set.modules[m].name && i.symbols.contains(&n));
            for a in &other.assigns {
                let hit = a.refs.iter().any(|r| r == &qualified || (r == &n && (mj == m || imports_it)));
                if hit && !(mj == m && a.name == n) && out.insert((mj, a.name.clone())) {
                    todo.push((mj, a.name.clone()));
                }
            }
        }
    }
    out
}

fn faulted_set(p: &Plan) -> (ModuleSet, Vec<(usize, String, String)>) {
    // returns the set with input-level faults applied and the list (module, old name, new name)
    let mut s = p.set.clone();
    let mut renamed = vec![];
    for f in &p.faults {
        if let DFault::Replace { module, assign, kind } = f {
            let a = &mut s.modules[*module].assigns[*assign];
            let old = a.name.clone();
            match kind.as_str() {
                "REAL" => a.text = format!("{} ::= REAL", a.name),
                "VideotexString" => a.text = format!("{} ::= VideotexString", a.name),
                "inverted-range" => a.text = format!("{} ::= INTEGER (5..1)", a.name),
                _ => {
                    // (a name of its own: an all-caps type of that spelling may already exist)
                    let up = format!("{}-MACRO", a.name.to_uppercase());
                    a.text = format!("{up} MACRO ::= BEGIN TYPE NOTATION ::= empty VALUE NOTATION ::= value(VALUE INTEGER) END");
                    a.name = up;
                }
            }
            a.refs.clear();
            a.comment.clear();
            renamed.push((*module, old, a.name.clone()));
        }
    }
    (s, renamed)
}

fn block_ident_counts(b: Option<&ModBlock>) -> BTreeMap<String, usize> {
    let mut m = BTreeMap::new();
    if let Some(b) = b {
        for k in b.item_keys() {
            *m.entry(proj::key_ident(&k)).or_insert(0) += 1;
        }
    }
    m
}

fn block_idents(b: Option<&ModBlock>) -> BTreeSet<String> {
    b.map(|b| b.item_keys().iter().map(|k| proj::key_ident(k)).collect()).unwrap_or_default()
}

pub struct C10Faults;

impl Scenario for C10Faults {
    fn property(&self) -> &'static str {
        "C10"
    }
    fn name(&self) -> &'static str {
        "faults"
    }
    fn runs(&self, tier: Tier) -> u64 {
        match tier {
            Tier::Quick => 5000,
            Tier::Thorough => 60000,
        }
    }
    fn needs_reference(&self) -> bool {
        true
    }
    fn crash_is_violation(&self) -> bool {
        true
    }

    fn plan(&self, seed: u64, _idx: u64, _tier: Tier, _env: &Env) -> Value {
        let root = Rng::new(seed);
        let mut w = root.fork("workload");
        let mut cfg = GenCfg::default_cfg();
        cfg.modules = (1, 4);
        cfg.assigns = (1, 12);
        cfg.comments = false;
        cfg.odd_governors = w.chance(1, 3);
        // classes, objects, parameterized templates (tagged and untagged, with type and value
        // parameters) and their instances; members inherited with COMPONENTS OF
        cfg.classes = w.chance(1, 2);
        cfg.components_of = w.chance(1, 3);
        let set = gen::generate(&mut w, &cfg);
        let backend = BackendSel::random(&mut w);
        let mut f = root.fork("faults");
        let mut faults: Vec<DFault> = vec![];
        let n = 1 + f.below(3);
        let mut touched: BTreeSet<(usize, usize)> = BTreeSet::new();
        for _ in 0..n {
            let module = f.below(set.modules.len());
            let assign = f.below(set.modules[module].assigns.len());
            if !touched.insert((module, assign)) {
                continue;
            }
            let a = &set.modules[module].assigns[assign];
            if !matches!(a.kind, AKind::Type | AKind::Value) {
                continue;
            }
            let referenced = !dependents(&set, module, &a.name).is_empty();
            faults.push(match f.below(10) {
                0..=2 => DFault::BuggifyGenerate { module, assign },
                3 => DFault::BuggifyValidate { module, assign },
                4 => DFault::BuggifyLink { module, assign },
                5..=8 if a.kind == AKind::Type => {
                    let kinds: &[&str] = if referenced { &["REAL", "VideotexString", "inverted-range"] } else { &["REAL", "VideotexString", "inverted-range", "MACRO"] };
                    DFault::Replace { module, assign, kind: f.pick(kinds).to_string() }
                }
                5..=8 => DFault::BuggifyGenerate { module, assign },
                _ if f.chance(1, 2) => DFault::LexGarbage { module },
                _ => DFault::LexAtEnd { module, kind: f.pick(&["missing-end", "stray-after-end", "header-cut"]).to_string() },
            });
        }
        let mut simcfg = SimCfg::simple(root.fork("schedule").next_u64());
        simcfg.entropy = root.fork("hashkeys").next_u64();
        for fl in &faults {
            match fl {
                DFault::BuggifyGenerate { module, assign } => simcfg.buggify.push(("generate".into(), set.modules[*module].assigns[*assign].name.clone())),
                DFault::BuggifyValidate { module, assign } => simcfg.buggify.push(("validate".into(), set.modules[*module].assigns[*assign].name.clone())),
                DFault::BuggifyLink { module, assign } => simcfg.buggify.push(("link".into(), set.modules[*module].assigns[*assign].name.clone())),
                _ => {}
            }
        }
        // an end-of-source failure needs the faulted module to be (the end of) a source of its own
        let at_end = faults.iter().any(|f| matches!(f, DFault::LexAtEnd { .. }));
        let one_literal = !at_end && w.chance(1, 3);
        let mut hw = root.fork("hand-over");
        let files = hw.chance(1, 3);
        let bp = if hw.chance(1, 2) {
            BuilderPath { output_first: hw.chance(1, 2), batch_paths: hw.chance(1, 2), swap_backend: hw.chance(1, 6), swap_late: false, legacy_path: false, output_mid: hw.chance(1, 2) }
        } else {
            BuilderPath::default()
        };
        serde_json::to_value(&Plan { seed, set, backend, faults, one_literal, sim: simcfg, files, bp }).unwrap()
    }

    /// fault-free run + leave-one-out attribution
    fn reference(&self, plan: &Value, _env: &Env) -> Value {
        let p = parse_plan(plan);
        let rust = matches!(p.backend, BackendSel::Rasn(_));
        let bp = BuilderPath::default();
        let r0 = sut::compile_to_string(&p.backend, &srcs_of(&p.set, false, &[]), &bp);
        let mut rf = Ref { r0: r0.clone(), ..Default::default() };
        let blocks0 = if r0.ok { proj::modules_of(&r0.generated, rust).unwrap_or_default() } else { vec![] };
        let names0: BTreeSet<String> = blocks0.iter().map(|b| b.name.clone()).collect();
        for mi in 0..p.set.modules.len() {
            // block name of module mi: the block that disappears when the module is left out
            let mut name = None;
            if p.set.modules.len() == 1 {
                name = blocks0.first().map(|b| b.name.clone());
            } else {
                let mut s2 = p.set.clone();
                s2.modules.remove(mi);
                let o = sut::compile_to_string(&p.backend, &srcs_of(&s2, false, &[]), &bp);
                if o.ok {
                    let names: BTreeSet<String> = proj::modules_of(&o.generated, rust).unwrap_or_default().into_iter().map(|b| b.name).collect();
                    name = names0.difference(&names).next().cloned();
                }
            }
            let full = block_ident_counts(blocks0.iter().find(|b| Some(&b.name) == name.as_ref()));
            let mut diff: BTreeMap<String, BTreeSet<String>> = BTreeMap::new();
            for ai in 0..p.set.modules[mi].assigns.len() {
                let mut s2 = p.set.clone();
                let removed = s2.modules[mi].assigns.remove(ai);
                let o = sut::compile_to_string(&p.backend, &srcs_of(&s2, false, &[]), &bp);
                if !o.ok {
                    continue;
                }
                let b2 = proj::modules_of(&o.generated, rust).unwrap_or_default();
                let less = block_ident_counts(b2.iter().find(|b| Some(&b.name) == name.as_ref()));
                diff.insert(removed.name.clone(), full.iter().filter(|(k, n)| less.get(*k).copied().unwrap_or(0) < **n).map(|(k, _)| k.clone()).collect());
            }
            // items that vanish with `d` only because a dependent of `d` vanishes belong to the dependent
            let mut attr = BTreeMap::new();
            for (d, items) in &diff {
                let mut mine = items.clone();
                for (mj, e) in dependents(&p.set, mi, d) {
                    if mj == mi {
                        if let Some(other) = diff.get(&e) {
                            for x in other {
                                mine.remove(x);
                            }
                        }
                    }
                }
                attr.insert(d.clone(), mine);
            }
            rf.block_name.push(name);
            rf.attribution.push(attr);
            rf.raw.push(diff);
        }
        serde_json::to_value(&rf).unwrap()
    }

    fn execute(&self, plan: &Value, refs: &Value, root: &str, _env: &Env) -> Outcome {
        let p = parse_plan(plan);
        let mut out = Outcome::default();
        let Ok(rf) = serde_json::from_value::<Ref>(refs.clone()) else {
            out.inconclusive.push(format!("reference crashed: {refs}"));
            return out;
        };
        std::env::remove_var("CARGO");
        std::env::set_var("CARGO_HOME", format!("{root}/cargo-home"));
        let rust = matches!(p.backend, BackendSel::Rasn(_));
        let (fset, renamed) = faulted_set(&p);
        let garbage: Vec<usize> = p.faults.iter().filter_map(|f| if let DFault::LexGarbage { module } = f { Some(*module) } else { None }).collect();
        let at_end: Vec<(usize, String)> = p.faults.iter().filter_map(|f| if let DFault::LexAtEnd { module, kind } = f { Some((*module, kind.clone())) } else { None }).collect();
        let srcs = srcs_of_ext(&fset, p.one_literal, &garbage, &at_end);
        // contextualize() is only meaningful against the source an error belongs to; with several
        // literal sources that is unknowable (src_file is None), so it is exercised only when
        // there is exactly one source
        let texts: Vec<String> = if srcs.len() == 1 { srcs.iter().map(|s| if let Src::Literal(t) = s { t.clone() } else { String::new() }).collect() } else { vec![] };
        let be = p.backend.clone();
        let srcs: Vec<Src> = if p.files {
            out.count("probe.sources_handed_over_as_files", 1);
            std::fs::create_dir_all(format!("{root}/src")).unwrap();
            srcs.iter()
                .enumerate()
                .map(|(i, s)| match s {
                    Src::Literal(t) => {
                        let path = format!("{root}/src/m{i}.asn");
                        std::fs::write(&path, t).unwrap();
                        Src::Path(path)
                    }
                    other => other.clone(),
                })
                .collect()
        } else {
            srcs
        };
        if p.bp.output_mid && srcs.len() >= 2 {
            out.count("probe.output_mode_set_between_two_sources", 1);
        }
        let bp = p.bp.clone();
        let body: sim::Body<CompileOut> = Box::new(move || {
            sim::op_begin("compile");
            let r = sut::compile_to_string_render(&be, &srcs, &bp, &texts);
            sim::op_end("compile");
            r
        });
        let (mut results, rep) = sim::run_sim(&p.sim, None, root, vec![body]);
        out.steps = rep.sched.steps + rep.events.len() as u64;
        let Some(r1) = results.pop().flatten() else {
            out.harness_error = Some("sim thread died".into());
            return out;
        };
        for f in &p.faults {
            out.count(
                &format!("fault_planned.{}", match f {
                    DFault::BuggifyGenerate { .. } => "buggify-generate".to_string(),
                    DFault::BuggifyValidate { .. } => "buggify-validate".to_string(),
                    DFault::BuggifyLink { .. } => "buggify-link".to_string(),
                    DFault::Replace { kind, .. } => format!("replace-{kind}"),
                    DFault::LexGarbage { .. } => "lex-garbage".to_string(),
                    DFault::LexAtEnd { kind, .. } => format!("lex-at-end-{kind}"),
                }),
                1,
            );
        }
        for (site, _) in &rep.buggify_fired {
            out.count(&format!("fault_fired.buggify-{site}"), 1);
        }
        let ctx = format!(
            "backend {}, faults {:?}, result {}",
            p.backend.short(),
            p.faults
                .iter()
                .map(|f| match f {
                    DFault::BuggifyGenerate { module, assign } => format!("generate({}) fails", p.set.modules[*module].assigns[*assign].name),
                    DFault::BuggifyValidate { module, assign } => format!("validate({}) fails", p.set.modules[*module].assigns[*assign].name),
                    DFault::BuggifyLink { module, assign } => format!("link({}) fails", p.set.modules[*module].assigns[*assign].name),
                    DFault::Replace { module, assign, kind } => format!("{} replaced by {kind}", p.set.modules[*module].assigns[*assign].name),
                    DFault::LexGarbage { module } => format!("module {} does not lex", p.set.modules[*module].name),
                    DFault::LexAtEnd { module, kind } => format!("module {} fails to lex at the very end of its source ({kind})", p.set.modules[*module].name),
                })
                .collect::<Vec<_>>(),
            r1.brief().replace(root, "<ROOT>")
        );
        // (the run's private directory has another name in every execution: error texts that quote a
        // source path are normalised before they enter the digest)
        out.log_hash = fnv1a(format!("{}|{}|{:?}", r1.brief(), fnv1a(r1.generated.as_bytes()), r1.sorted_warnings()).replace(root, "<ROOT>").as_bytes());
        // oracle 4: normal return, renderable
        if let Some(pn) = &r1.panic {
            out.violate("returns-normally", format!("panic {pn}; {ctx}"));
            return out;
        }
        // oracle 3: Err carries nothing
        if !garbage.is_empty() || !at_end.is_empty() {
            out.count("lexer_failure_runs", 1);
            if !at_end.is_empty() {
                out.count("probe.lexer_failure_exactly_at_end_of_a_source", 1);
            }
            if r1.ok {
                out.violate("err-when-a-source-does-not-lex", format!("a source does not lex but the result is Ok with {} bytes of bindings; {ctx}", r1.generated.len()));
            }
            out.sigs.push(mix(fnv1a(serde_json::to_string(&p.set).unwrap().as_bytes()), fnv1a(format!("{:?}", p.faults).as_bytes())));
            return out;
        }
        if !rf.r0.ok || rf.r0.panic.is_some() {
            out.inconclusive.push(format!("fault-free reference is {}", rf.r0.brief()));
            return out;
        }
        if !r1.ok {
            out.violate("ok-when-only-definitions-fail", format!("every source lexes and only single definitions fail, but the compilation returned Err; {ctx}"));
            return out;
        }
        let (Ok(b0), Ok(b1)) = (proj::modules_of(&rf.r0.generated, rust), proj::modules_of(&r1.generated, rust)) else {
            out.inconclusive.push("output does not parse".into());
            return out;
        };
        // ---- oracle 1 on the fault-free run itself: the reference input compiles without warnings,
        // so every type and value assignment must be REPRESENTED: leaving it out must make at
        // least one item disappear
        let names_def = |w: &str, n: &str| {
            // the name as a whole token of the warning text
            w.match_indices(n).any(|(i, _)| {
                let before = w[..i].chars().next_back();
                let after = w[i + n.len()..].chars().next();
                let is_part = |c: Option<char>| c.is_some_and(|c| c.is_alphanumeric() || c == '-');
                !is_part(before) && !is_part(after)
            })
        };
        // (a reference that does warn is checked too, as long as every one of its warnings names
        // a definition: a definition named by a warning is accounted for)
        let every_name: Vec<String> = p.set.modules.iter().flat_map(|m| m.assigns.iter().map(|a| a.name.clone())).collect();
        if rf.r0.warnings.iter().all(|w| every_name.iter().any(|n| names_def(w, n))) {
            for (mi, m) in p.set.modules.iter().enumerate() {
                for a in &m.assigns {
                    if !matches!(a.kind, AKind::Type | AKind::Value) {
                        continue;
                    }
                    if rf.r0.warnings.iter().any(|w| names_def(w, &a.name)) {
                        continue;
                    }
                    if rf.raw.get(mi).and_then(|r| r.get(&a.name)).is_some_and(|items| items.is_empty()) {
                        out.violate(
                            "no-silent-loss",
                            format!("fault-free compilation: no warning names definition {} of module {} and leaving it out changes no item of the output, i.e. it is not represented in the bindings; backend {}", a.name, m.name, p.backend.short()),
                        );
                    }
                }
            }
            out.count("fault_free_runs_checked_for_completeness", 1);
        }
        // which definitions are faulted / dependents of an input-level fault
        let mut faulted: BTreeSet<(usize, String)> = BTreeSet::new();
        let mut affected: BTreeSet<(usize, String)> = BTreeSet::new();
        for f in &p.faults {
            match f {
                DFault::BuggifyGenerate { module, assign } | DFault::BuggifyValidate { module, assign } => {
                    faulted.insert((*module, p.set.modules[*module].assigns[*assign].name.clone()));
                }
                // (a definition that was not linked keeps its unresolved references: whatever uses it
                // through COMPONENTS OF, a constraint or a DEFAULT may legitimately come out differently)
                DFault::Replace { module, assign, .. } | DFault::BuggifyLink { module, assign } => {
                    let n = p.set.modules[*module].assigns[*assign].name.clone();
                    for d in dependents(&p.set, *module, &n) {
                        affected.insert(d);
                    }
                    faulted.insert((*module, n));
                }
                _ => {}
            }
        }
        // the hook is keyed by bare name: a buggify entry also hits a definition of the same
        // name in another module (none here: generated names are disjoint across modules)
        // new warnings = multiset difference R1 \ R0
        let mut new_warnings: Vec<String> = r1.warnings.clone();
        for w in &rf.r0.warnings {
            if let Some(pos) = new_warnings.iter().position(|x| x == w) {
                new_warnings.remove(pos);
            }
        }
        let all_names: Vec<String> = fset.modules.iter().flat_map(|m| m.assigns.iter().map(|a| a.name.clone())).collect();
        // ---- oracle 1: accounting
        let mut lost: Vec<(usize, String)> = vec![];
        for (mi, m) in fset.modules.iter().enumerate() {
            let blk1 = block_idents(b1.iter().find(|b| Some(&b.name) == rf.block_name[mi].as_ref()));
            for a in &m.assigns {
                let orig = renamed.iter().find(|(rm, _, new)| *rm == mi && new == &a.name).map(|(_, old, _)| old.clone()).unwrap_or(a.name.clone());
                let Some(items) = rf.attribution[mi].get(&orig) else { continue };
                if items.is_empty() {
                    continue; // attribution unknown for this definition
                }
                let is_faulted = faulted.contains(&(mi, orig.clone()));
                // a dependent of a REPLACED definition legitimately changes shape (the members it
                // inherits with COMPONENTS OF, the inner types derived from them): it is represented
                // when any of its items is still there; everything else must be there completely
                let reshaped = is_faulted || affected.contains(&(mi, orig.clone()));
                let represented = if reshaped { items.iter().any(|i| blk1.contains(i)) } else { items.iter().all(|i| blk1.contains(i)) };
                if !represented {
                    lost.push((mi, a.name.clone()));
                }
            }
        }
        out.count("definitions_accounted", all_names.len() as u64);
        out.count("definitions_not_represented", lost.len() as u64);
        // match every lost definition to a new warning: one that names it, or one that names no definition at all
        let mut used = vec![false; new_warnings.len()];
        let mut unmatched = vec![];
        // named matches first
        for (mi, n) in &lost {
            let hit = new_warnings.iter().enumerate().position(|(k, w)| !used[k] && names_def(w, n));
            match hit {
                Some(k) => used[k] = true,
                None => unmatched.push((*mi, n.clone())),
            }
        }
        let mut silent = vec![];
        for (mi, n) in unmatched {
            let hit = new_warnings.iter().enumerate().position(|(k, w)| !used[k] && !all_names.iter().any(|x| names_def(w, x)));
            match hit {
                Some(k) => used[k] = true,
                None => silent.push((mi, n)),
            }
        }
        for (mi, n) in &silent {
            out.violate(
                "no-silent-loss",
                format!("definition {n} of module {} is neither represented in the output nor the subject of a new warning (new warnings: {:?}); {ctx}", fset.modules[*mi].name, new_warnings),
            );
        }
        // ---- oracle 2: locality
        let mut compared = 0u64;
        for (mi, m) in p.set.modules.iter().enumerate() {
            let (Some(k0), Some(k1)) = (b0.iter().find(|b| Some(&b.name) == rf.block_name[mi].as_ref()), b1.iter().find(|b| Some(&b.name) == rf.block_name[mi].as_ref())) else {
                continue;
            };
            // An item key may occur more than once in a block (a top-level type and the derived name
            // of another type's anonymous member can coincide), so items are compared per key as
            // multisets of token texts, and a key is judged only if NONE of the definitions that own
            // an item of that identifier is faulted or depends on a faulted one.
            let mut keys: Vec<String> = k0.items.iter().map(|(k, _)| k.clone()).collect();
            keys.sort();
            keys.dedup();
            for k in keys {
                let ident = proj::key_ident(&k);
                let owners: Vec<&String> = m.assigns.iter().map(|a| &a.name).filter(|n| rf.attribution[mi].get(*n).is_some_and(|it| it.contains(&ident))).collect();
                if owners.is_empty() || owners.iter().any(|n| faulted.contains(&(mi, (*n).clone())) || affected.contains(&(mi, (*n).clone()))) {
                    continue;
                }
                // an identifier that (also) vanishes when a faulted definition is left out may be an
                // item of that definition under a coinciding name: not judged
                let touched = m.assigns.iter().any(|a| {
                    (faulted.contains(&(mi, a.name.clone())) || affected.contains(&(mi, a.name.clone()))) && rf.raw.get(mi).and_then(|r| r.get(&a.name)).is_some_and(|it| it.contains(&ident))
                });
                if touched {
                    continue;
                }
                let mut t0: Vec<&String> = k0.items.iter().filter(|(kk, _)| kk == &k).map(|(_, t)| t).collect();
                let mut t1: Vec<&String> = k1.items.iter().filter(|(kk, _)| kk == &k).map(|(_, t)| t).collect();
                t0.sort();
                t1.sort();
                compared += t0.len() as u64;
                if t0 != t1 {
                    let lost_silently = owners.iter().any(|n| silent.iter().any(|(_, s)| s == *n));
                    if t1.len() < t0.len() && lost_silently {
                        continue; // already reported by the accounting oracle
                    }
                    out.violate(
                        "warnings-are-local",
                        format!(
                            "item `{k}` of definition(s) {:?} (which do not depend on a faulted definition) {}: fault-free `{}` / faulted `{}`; {ctx}",
                            owners,
                            if t1.len() < t0.len() { "disappeared" } else { "changed" },
                            crate::core::truncate(&t0.iter().map(|s| s.as_str()).collect::<Vec<_>>().join(" || "), 300),
                            crate::core::truncate(&t1.iter().map(|s| s.as_str()).collect::<Vec<_>>().join(" || "), 300)
                        ),
                    );
                }
            }
        }
        out.count("items_compared_for_locality", compared);
        if p.faults.iter().any(|f| match f {
            DFault::BuggifyGenerate { module, assign } | DFault::BuggifyValidate { module, assign } | DFault::BuggifyLink { module, assign } | DFault::Replace { module, assign, .. } => !dependents(&p.set, *module, &p.set.modules[*module].assigns[*assign].name).is_empty(),
            _ => false,
        }) {
            out.count("probe.fault_on_a_definition_others_depend_on", 1);
        }
        out.sigs.push(mix(fnv1a(serde_json::to_string(&p.set).unwrap().as_bytes()), fnv1a(format!("{:?}{}", p.faults, p.backend.short()).as_bytes())));
        out.sample = Some(json!({"modules": p.set.modules.len(), "assignments": p.set.n_assigns(), "faults": ctx, "new_warnings": new_warnings, "items_compared": compared}));
        out
    }

    fn shrink(&self, plan: &Value) -> Vec<Value> {
        let p = parse_plan(plan);
        let mut out = vec![];
        for i in 0..p.faults.len() {
            if p.faults.len() > 1 {
                let mut q = p.clone();
                q.faults.remove(i);
                q.sim.buggify.clear();
                for fl in &q.faults {
                    match fl {
                        DFault::BuggifyGenerate { module, assign } => q.sim.buggify.push(("generate".into(), q.set.modules[*module].assigns[*assign].name.clone())),
                        DFault::BuggifyValidate { module, assign } => q.sim.buggify.push(("validate".into(), q.set.modules[*module].assigns[*assign].name.clone())),
                        DFault::BuggifyLink { module, assign } => q.sim.buggify.push(("link".into(), q.set.modules[*module].assigns[*assign].name.clone())),
                        _ => {}
                    }
                }
                out.push(serde_json::to_value(&q).unwrap());
            }
        }
        // drop assignments that no fault addresses (indices of later faults shift)
        for mi in 0..p.set.modules.len() {
            for ai in (0..p.set.modules[mi].assigns.len()).rev() {
                let addressed = p.faults.iter().any(|f| match f {
                    DFault::BuggifyGenerate { module, assign } | DFault::BuggifyValidate { module, assign } | DFault::BuggifyLink { module, assign } | DFault::Replace { module, assign, .. } => *module == mi && *assign == ai,
                    _ => false,
                });
                if addressed {
                    continue;
                }
                if let Some(s2) = p.set.without_assign(mi, ai) {
                    let mut q = p.clone();
                    q.set = s2;
                    for f in &mut q.faults {
                        match f {
                            DFault::BuggifyGenerate { module, assign } | DFault::BuggifyValidate { module, assign } | DFault::BuggifyLink { module, assign } | DFault::Replace { module, assign, .. } => {
                                if *module == mi && *assign > ai {
                                    *assign -= 1;
                                }
                            }
                            _ => {}
                        }
                    }
                    out.push(serde_json::to_value(&q).unwrap());
                }
            }
        }
        out
    }
}

// ------------------------------------------------------------------ F1 scenario

#[derive(Clone, Debug, Serialize, Deserialize, PartialEq)]
pub struct XPlan {
    pub seed: u64,
    pub set: ModuleSet,
    pub apart: ModuleSet,
    pub backend: BackendSel,
    pub order: Vec<usize>,
    pub sim: SimCfg,
}

#[derive(Clone, Debug, Default, Serialize, Deserialize)]
pub struct XRef {
    /// per module that defines the shared name: (module index, block name, item identifiers
    /// of that definition when the module is compiled with its cone only)
    pub expect: Vec<(usize, Option<String>, BTreeSet<String>)>,
    pub expect_apart: Vec<(usize, Option<String>, BTreeSet<String>)>,
}

fn items_of(set: &ModuleSet, mi: usize, name: &str, backend: &BackendSel) -> (Option<String>, BTreeSet<String>) {
    let rust = matches!(backend, BackendSel::Rasn(_));
    let cone = set.cone(&set.modules[mi].name);
    let idxs: Vec<usize> = (0..set.modules.len()).filter(|i| cone.contains(&set.modules[*i].name)).collect();
    let compile = |s: &ModuleSet| {
        let srcs: Vec<Src> = idxs.iter().map(|i| Src::Literal(s.modules[*i].text(&s.modules))).collect();
        sut::compile_to_string(backend, &srcs, &BuilderPath::default())
    };
    let full = compile(set);
    let Some(ai) = set.modules[mi].assigns.iter().position(|a| a.name == name) else { return (None, BTreeSet::new()) };
    let mut s2 = set.clone();
    s2.modules[mi].assigns.remove(ai);
    let less = compile(&s2);
    if !full.ok || !less.ok {
        return (None, BTreeSet::new());
    }
    let bf = proj::modules_of(&full.generated, rust).unwrap_or_default();
    let bl = proj::modules_of(&less.generated, rust).unwrap_or_default();
    // the module's block: the one whose item set changes
    for b in &bf {
        let before = block_idents(Some(b));
        let after = block_idents(bl.iter().find(|x| x.name == b.name));
        let diff: BTreeSet<String> = before.difference(&after).cloned().collect();
        if !diff.is_empty() {
            return (Some(b.name.clone()), diff);
        }
    }
    (None, BTreeSet::new())
}

pub struct C10XmodName;

impl Scenario for C10XmodName {
    fn property(&self) -> &'static str {
        "C10"
    }
    fn name(&self) -> &'static str {
        "xmod-name"
    }
    fn runs(&self, tier: Tier) -> u64 {
        match tier {
            Tier::Quick => 300,
            Tier::Thorough => 3000,
        }
    }
    fn needs_reference(&self) -> bool {
        true
    }
    fn plan(&self, seed: u64, _idx: u64, _tier: Tier, _env: &Env) -> Value {
        let root = Rng::new(seed);
        let mut w = root.fork("workload");
        let mut cfg = GenCfg::default_cfg();
        cfg.modules = (2, 4);
        cfg.assigns = (1, 8);
        cfg.comments = false;
        cfg.xmod_same_name = true;
        let set = gen::generate(&mut w, &cfg);
        let apart = crate::c11::rename_shared_apart(&set);
        let order = w.permutation(set.modules.len());
        let backend = BackendSel::random(&mut w);
        serde_json::to_value(&XPlan { seed, set, apart, backend, order, sim: SimCfg::simple(root.fork("schedule").next_u64()) }).unwrap()
    }
    fn reference(&self, plan: &Value, _env: &Env) -> Value {
        let p: XPlan = serde_json::from_value(plan.clone()).expect("c10 xmod plan");
        let mut r = XRef::default();
        for mi in 0..p.set.modules.len() {
            if p.set.modules[mi].assigns.iter().any(|a| a.name == "Shared-Name") {
                let (b, items) = items_of(&p.set, mi, "Shared-Name", &p.backend);
                r.expect.push((mi, b, items));
                let nm = format!("Shared-Name{mi}");
                let (b2, items2) = items_of(&p.apart, mi, &nm, &p.backend);
                r.expect_apart.push((mi, b2, items2));
            }
        }
        serde_json::to_value(&r).unwrap()
    }
    fn execute(&self, plan: &Value, refs: &Value, root: &str, _env: &Env) -> Outcome {
        let p: XPlan = serde_json::from_value(plan.clone()).expect("c10 xmod plan");
        let mut out = Outcome::default();
        let Ok(rf) = serde_json::from_value::<XRef>(refs.clone()) else {
            out.inconclusive.push("reference crashed".into());
            return out;
        };
        std::env::remove_var("CARGO");
        std::env::set_var("CARGO_HOME", format!("{root}/cargo-home"));
        let rust = matches!(p.backend, BackendSel::Rasn(_));
        let joint = |set: &ModuleSet| -> Vec<Src> { p.order.iter().map(|i| Src::Literal(set.modules[*i].text(&set.modules))).collect() };
        let (s1, s2) = (joint(&p.set), joint(&p.apart));
        let be = p.backend.clone();
        let body: sim::Body<(CompileOut, CompileOut)> = Box::new(move || {
            sim::op_begin("compile");
            let a = sut::compile_to_string(&be, &s1, &BuilderPath::default());
            sim::op_end("compile");
            sim::op_begin("compile-apart");
            let b = sut::compile_to_string(&be, &s2, &BuilderPath::default());
            sim::op_end("compile-apart");
            (a, b)
        });
        let (mut results, rep) = sim::run_sim(&p.sim, None, root, vec![body]);
        out.steps = rep.sched.steps + rep.events.len() as u64;
        let Some((a, b)) = results.pop().flatten() else {
            out.harness_error = Some("sim thread died".into());
            return out;
        };
        if !a.ok || !b.ok || a.panic.is_some() || b.panic.is_some() {
            out.inconclusive.push(format!("joint compilation is {} / {}", a.brief(), b.brief()));
            return out;
        }
        let lost = |o: &CompileOut, expect: &[(usize, Option<String>, BTreeSet<String>)], name_of: &dyn Fn(usize) -> String| -> Vec<String> {
            let blocks = proj::modules_of(&o.generated, rust).unwrap_or_default();
            let mut v = vec![];
            for (mi, bname, items) in expect {
                if items.is_empty() {
                    continue;
                }
                let have = block_idents(blocks.iter().find(|x| Some(&x.name) == bname.as_ref()));
                let represented = items.iter().all(|i| have.contains(i));
                let nm = name_of(*mi);
                let warned = o.warnings.iter().any(|w| w.contains(&nm));
                if !represented && !warned {
                    v.push(format!("{} of module {}", nm, p.set.modules[*mi].name));
                }
            }
            v
        };
        let lost_main = lost(&a, &rf.expect, &|_| "Shared-Name".to_string());
        let lost_apart = lost(&b, &rf.expect_apart, &|mi| format!("Shared-Name{mi}"));
        out.count("definitions_checked", rf.expect.len() as u64);
        for l in &lost_apart {
            out.violate("no-silent-loss", format!("definition {l} is neither in the bindings nor the subject of a warning, backend {}", p.backend.short()));
        }
        for l in &lost_main {
            let oracle = if lost_apart.is_empty() { "xmod-same-bare-name" } else { "no-silent-loss" };
            out.violate(oracle, format!("definition {l} is neither in the bindings nor the subject of a warning ({} warnings returned); with the name renamed apart per module every definition is present; backend {}, source order {:?}", a.warnings.len(), p.backend.short(), p.order));
        }
        out.sigs.push(mix(fnv1a(serde_json::to_string(&p.set).unwrap().as_bytes()), fnv1a(format!("{:?}{}", p.order, p.backend.short()).as_bytes())));
        out.log_hash = fnv1a(format!("{}{}{:?}", fnv1a(a.generated.as_bytes()), fnv1a(b.generated.as_bytes()), out.violations).as_bytes());
        out.sample = Some(json!({"modules": p.set.modules.len(), "order": p.order, "lost": lost_main}));
        out
    }
}
