//! C11 — the result is a deterministic function of the set of definitions.
//!
//! Scenario `threads`: 1..16 caller threads under the baton scheduler, each with a
//! history of 1..8 compilations over a small pool of inputs (generated sets, their
//! *siblings* — same names, different bodies and defaults — and real-world corpus
//! files), in arbitrary arrangements (assignments permuted inside modules, modules
//! permuted and regrouped into sources), with seeded hash keys and benign read faults.
//! Oracle: every result is byte-identical to the result of a pristine, single-threaded,
//! canonical-order compilation of the same input in a process of its own.

use crate::core::{Env, Outcome, Scenario, Tier};
use crate::gen::{self, GenCfg, ModuleSet};
use crate::proc::{fork_run, Exit};
use crate::rng::{fnv1a, mix, Rng};
use crate::sched::Strategy;
use crate::shim::{self, Fault};
use crate::sim::{self, SimCfg};
use crate::sut::{self, BackendSel, BuilderPath, CompileOut, Src};
use serde::{Deserialize, Serialize};
use serde_json::{json, Value};
use std::io::Write;

#[derive(Clone, Debug, Serialize, Deserialize, PartialEq)]
pub enum Input {
    Gen(ModuleSet),
    /// a real-world module file of the repository's corpus (absolute path)
    Corpus(String),
    /// several corpus files whose top-level names and module names are pairwise disjoint
    /// (over-approximate token scan), handed over as separate sources in a permuted order
    CorpusSet(Vec<String>),
}

#[derive(Clone, Debug, Serialize, Deserialize, PartialEq, Default)]
pub struct Arrangement {
    /// permutation of the assignments of each module (empty = identity)
    pub assign_perms: Vec<Vec<usize>>,
    /// order in which the modules are handed over
    pub module_order: Vec<usize>,
    /// sizes of consecutive groups of modules forming one source each (sum = #modules)
    pub groups: Vec<usize>,
    /// sources handed over TWICE: (index of the source to repeat, position of the copy), both
    /// taken modulo the number of sources — the set of definitions stays the same
    #[serde(default)]
    pub dup: Vec<(usize, usize)>,
}

#[derive(Clone, Debug, Serialize, Deserialize, PartialEq)]
pub struct Op {
    pub input: usize,
    pub arr: Arrangement,
    pub backend: BackendSel,
    /// sources handed over as files through the simulated disk instead of literals
    pub files: bool,
    pub bp: BuilderPath,
    /// `compile()` into a file instead of `compile_to_string()`: every such operation of a
    /// thread writes to the SAME path (a build script regenerating its bindings), and the file's
    /// content afterwards is the result that is compared
    #[serde(default)]
    pub to_file: bool,
}

#[derive(Clone, Debug, Serialize, Deserialize, PartialEq)]
pub struct Plan {
    pub seed: u64,
    pub inputs: Vec<Input>,
    /// ops[t] = history of thread t
    pub ops: Vec<Vec<Op>>,
    pub sim: SimCfg,
    pub schedule: Option<Vec<u8>>,
    /// file-delivered operations of one thread reuse the same scratch paths: the files are
    /// rewritten (by the harness, outside the seam) right before each compilation, as a build
    /// script regenerating its inputs would
    #[serde(default)]
    pub reuse_paths: bool,
    /// threads 0 and 1 deliver into ONE directory: thread 0 with the TypeScript backend only
    /// (`generated.ts`), thread 1 with the rasn backend only (`generated.rs`) — two files, each
    /// written by one thread only, so each must hold exactly what its own thread compiled
    #[serde(default)]
    pub shared_dir: bool,
    /// xmod scenario: the same inputs with the shared bare name renamed apart, used to classify
    /// a violation as the known finding F1 (it disappears) or as something else
    #[serde(default)]
    pub apart: Option<Vec<Input>>,
    /// mode of the rustfmt stand-in when a formatter is reachable (scenario `formatter`)
    #[serde(default)]
    pub fmt_mode: Option<String>,
}

/// the set with the deliberately shared bare name `Shared-Name` renamed apart per module
pub fn rename_shared_apart(set: &ModuleSet) -> ModuleSet {
    let mut s = set.clone();
    for (mi, m) in s.modules.iter_mut().enumerate() {
        let to = format!("Shared-Name{mi}");
        for a in &mut m.assigns {
            a.text = a.text.replace("Shared-Name", &to);
            if a.name == "Shared-Name" {
                a.name = to.clone();
            }
            for r in &mut a.refs {
                if r == "Shared-Name" {
                    *r = to.clone();
                }
            }
        }
    }
    s
}

pub fn canonical(set: &ModuleSet) -> Arrangement {
    Arrangement { assign_perms: vec![], module_order: (0..set.modules.len()).collect(), groups: vec![1; set.modules.len()], dup: vec![] }
}

pub fn random_arrangement(set: &ModuleSet, rng: &mut Rng) -> Arrangement {
    let n = set.modules.len();
    let mode = rng.below(6);
    let assign_perms = match mode {
        0 => vec![],
        1 => set.modules.iter().map(|m| (0..m.assigns.len()).rev().collect()).collect(),
        _ => set.modules.iter().map(|m| rng.permutation(m.assigns.len())).collect(),
    };
    let module_order = match rng.below(4) {
        0 => (0..n).collect(),
        1 => (0..n).rev().collect(),
        _ => rng.permutation(n),
    };
    let mut groups = vec![];
    let mut left = n;
    while left > 0 {
        let g = match rng.below(3) {
            0 => 1,
            1 => left,
            _ => 1 + rng.below(left),
        };
        groups.push(g);
        left -= g;
    }
    Arrangement { assign_perms, module_order, groups, dup: vec![] }
}

/// source texts of a generated set in a given arrangement
pub fn arrange(set: &ModuleSet, arr: &Arrangement) -> Vec<String> {
    let mut mods = set.modules.clone();
    for (mi, perm) in arr.assign_perms.iter().enumerate() {
        if mi < mods.len() && perm.len() == mods[mi].assigns.len() {
            let orig = mods[mi].assigns.clone();
            mods[mi].assigns = perm.iter().map(|i| orig[*i].clone()).collect();
        }
    }
    let texts: Vec<String> = arr.module_order.iter().filter(|i| **i < mods.len()).map(|i| mods[*i].text(&mods)).collect();
    let mut out = vec![];
    let mut k = 0;
    for g in &arr.groups {
        let end = (k + g).min(texts.len());
        if k < end {
            out.push(texts[k..end].join("\n"));
        }
        k = end;
    }
    if k < texts.len() {
        out.push(texts[k..].join("\n"));
    }
    out
}

pub fn input_texts(input: &Input, arr: &Arrangement) -> Vec<String> {
    let mut texts = input_texts_once(input, arr);
    for (which, at) in &arr.dup {
        if !texts.is_empty() {
            let copy = texts[which % texts.len()].clone();
            texts.insert(at % (texts.len() + 1), copy);
        }
    }
    texts
}

fn input_texts_once(input: &Input, arr: &Arrangement) -> Vec<String> {
    match input {
        Input::Gen(set) => arrange(set, arr),
        Input::Corpus(path) => vec![std::fs::read_to_string(path).unwrap_or_default()],
        Input::CorpusSet(paths) => {
            let order: Vec<usize> = if arr.module_order.len() == paths.len() { arr.module_order.clone() } else { (0..paths.len()).collect() };
            order.iter().map(|i| std::fs::read_to_string(&paths[*i]).unwrap_or_default()).collect()
        }
    }
}

/// Over-approximate set of the names a corpus file defines: every identifier that stands one
/// or two tokens before a `::=`, plus every identifier directly before `DEFINITIONS` (module
/// names, prefixed with "module:"). Over-approximation only excludes more sets.
pub fn defined_names(text: &str) -> std::collections::BTreeSet<String> {
    let mut names = std::collections::BTreeSet::new();
    let toks: Vec<&str> = text
        .split(|c: char| !(c.is_alphanumeric() || c == '-' || c == ':' || c == '=' || c == '_'))
        .filter(|t| !t.is_empty())
        .collect();
    for (i, t) in toks.iter().enumerate() {
        if t.contains("::=") {
            let head = t.split("::=").next().unwrap_or("");
            if !head.is_empty() {
                names.insert(head.to_string());
            }
            for k in 1..=3 {
                if i >= k {
                    names.insert(toks[i - k].to_string());
                }
            }
        }
        if *t == "DEFINITIONS" && i >= 1 {
            names.insert(format!("module:{}", toks[i - 1]));
            if i >= 2 {
                names.insert(format!("module:{}", toks[i - 2]));
            }
        }
    }
    // words that are keywords, not names
    for kw in ["INTEGER", "SEQUENCE", "OF", "SET", "CHOICE", "BEGIN", "DEFINITIONS", "TAGS", "IMPLICIT", "EXPLICIT", "AUTOMATIC", "STRING", "OCTET", "BIT", "BOOLEAN", "OBJECT", "IDENTIFIER", "ENUMERATED", "CLASS", "NULL", "IMPLIED", "EXTENSIBILITY"] {
        names.remove(kw);
    }
    names
}

fn parse_plan(v: &Value) -> Plan {
    serde_json::from_value(v.clone()).expect("c11 plan")
}

fn ref_key(input: usize, backend: &BackendSel) -> String {
    format!("{input}|{}", serde_json::to_string(backend).unwrap())
}

pub struct C11Threads {
    /// inputs deliberately define one bare top-level name in two modules (finding F1)
    pub xmod: bool,
    /// fine-grained interleaving: heap allocations of the code under test are yield points
    /// (the allocator seam), small generated inputs, 2..3 threads
    pub fine: bool,
    /// a formatter is reachable: the rustfmt stand-in in a mode that is a pure function of its
    /// input (healthy, or rejecting some sources with exit status 1) — the result is then still
    /// a function of the definitions, whatever was formatted before on the same thread
    pub fmt: bool,
}

/// install the rustfmt stand-in as `<dir>/bin/rustfmt` (copy + rename: other workers may do the same)
fn install_formatter(dir: &str, env: &Env) {
    let bin = format!("{dir}/bin");
    let _ = std::fs::create_dir_all(&bin);
    let tmp = format!("{bin}/.rustfmt-{}", std::process::id());
    std::fs::copy(&env.fake_rustfmt, &tmp).expect("install fake-rustfmt");
    use std::os::unix::fs::PermissionsExt;
    let _ = std::fs::set_permissions(&tmp, std::fs::Permissions::from_mode(0o755));
    std::fs::rename(&tmp, format!("{bin}/rustfmt")).expect("install fake-rustfmt");
}

/// a fixed source that touches every lazily initialised table of the compiler
const WARM_UP: &str = "Warm-Up DEFINITIONS AUTOMATIC TAGS ::= BEGIN\n A ::= NumericString (FROM(\"0\"..\"9\"))\n B ::= PrintableString (FROM(\"a\"..\"f\"))\n C ::= VisibleString (FROM(\"a\"..\"f\"))\n D ::= IA5String (FROM(\"a\"..\"f\"))\n E ::= UTF8String (FROM(\"a\"..\"f\"))\n F ::= BMPString (FROM(\"a\"..\"f\"))\n G ::= SEQUENCE { a INTEGER (0..7) DEFAULT 3, b BOOLEAN OPTIONAL }\n v INTEGER ::= 5\nEND\n";

impl Scenario for C11Threads {
    fn property(&self) -> &'static str {
        "C11"
    }
    fn name(&self) -> &'static str {
        if self.xmod {
            "xmod-name"
        } else if self.fine {
            "fine-grain"
        } else if self.fmt {
            "formatter"
        } else {
            "threads"
        }
    }
    fn runs(&self, tier: Tier) -> u64 {
        if self.fmt {
            return match tier {
                Tier::Quick => 600,
                Tier::Thorough => 10000,
            };
        }
        match (tier, self.xmod, self.fine) {
            (Tier::Quick, false, true) => 1500,
            (Tier::Thorough, false, true) => 30000,
            (Tier::Quick, false, _) => 6000,
            (Tier::Thorough, false, _) => 80000,
            (Tier::Quick, true, _) => 300,
            (Tier::Thorough, true, _) => 3000,
        }
    }
    fn needs_reference(&self) -> bool {
        true
    }
    fn cpu_budget_secs(&self) -> u64 {
        600
    }
    fn has_subprocess(&self) -> bool {
        self.fmt
    }

    fn plan(&self, seed: u64, idx: u64, _tier: Tier, env: &Env) -> Value {
        let root = Rng::new(seed);
        let mut w = root.fork("workload");
        let mut bmid = root.fork("builder-mid");
        // ---- inputs
        let mut inputs: Vec<Input> = vec![];
        let use_corpus = !self.xmod && !self.fine && !self.fmt && !env.corpus.is_empty() && w.chance(1, 4);
        if use_corpus {
            // walk the corpus systematically so that every file is reached, plus a random one
            let a = (idx as usize / 4) % env.corpus.len();
            inputs.push(Input::Corpus(env.corpus[a].clone()));
            if w.chance(1, 2) {
                inputs.push(Input::Corpus(w.pick(&env.corpus).clone()));
            } else if w.chance(1, 2) {
                // a multi-file set of real-world modules with pairwise disjoint names
                let first = env.corpus[a].clone();
                let small = |p: &String| std::fs::metadata(p).map(|m| m.len()).unwrap_or(u64::MAX) < 120_000;
                if small(&first) {
                    let mut chosen = vec![first.clone()];
                    let mut names = defined_names(&std::fs::read_to_string(&first).unwrap_or_default());
                    for _ in 0..12 {
                        if chosen.len() >= 3 {
                            break;
                        }
                        let cand = w.pick(&env.corpus).clone();
                        if chosen.contains(&cand) || !small(&cand) {
                            continue;
                        }
                        let n2 = defined_names(&std::fs::read_to_string(&cand).unwrap_or_default());
                        if names.is_disjoint(&n2) {
                            names.extend(n2);
                            chosen.push(cand);
                        }
                    }
                    if chosen.len() >= 2 {
                        inputs.push(Input::CorpusSet(chosen));
                    }
                }
            }
        }
        // one run in fifty: two hand-written modules with permitted alphabets on the multi-octet
        // string types — BMPString inside the basic plane, UniversalString beyond it (for which the
        // unchanged compiler prints its whole character table into a warning: 900 KB, the reason
        // why the generator keeps its alphabets inside the plane and these two are rare)
        if !self.xmod && !self.fine && !self.fmt && idx % 50 == 7 {
            for f in ["bmp-alphabet.asn", "universal-alphabet.asn"] {
                let p = format!("{}/dsim/samples/c11/{f}", env.verif);
                if std::path::Path::new(&p).exists() {
                    inputs.push(Input::Corpus(p));
                }
            }
        }
        let n_gen = if use_corpus { w.below(2) } else { 1 + w.below(2) };
        for _ in 0..n_gen {
            let mut cfg = GenCfg::default_cfg();
            cfg.modules = (1, 4);
            cfg.assigns = (1, 10);
            // comments become doc attributes of the assignment that follows them, except directly
            // after the module header where they are dropped: their effect depends on position,
            // and they are not definitions. Comment (in)sensitivity is C13 (not decided here).
            cfg.comments = false;
            cfg.intra_shared_enumerals = true;
            if self.xmod {
                cfg.xmod_same_name = true;
                cfg.modules = (2, 4);
            }
            cfg.classes = true;
            cfg.real_components = true;
            cfg.components_of = true;
            cfg.recursion_bias = w.chance(1, 3);
            cfg.warnful = w.chance(1, 3);
            cfg.import_alias = !self.xmod;
            if w.chance(1, 2) {
                // import-heavy sets: many values governed by named types of other modules
                cfg.value_import_bias = true;
                cfg.modules = (3, 5);
                cfg.assigns = (3, 8);
            }
            let set = gen::generate(&mut w, &cfg);
            if w.chance(1, 2) {
                let sib = gen::sibling(&set, &mut w);
                inputs.push(Input::Gen(set));
                inputs.push(Input::Gen(sib));
            } else {
                inputs.push(Input::Gen(set));
            }
        }
        // ---- threads and histories
        // a very large input (the 886 KB X.680 character module: ~14 000 definitions, three yield
        // points each) takes part in small runs only, so that a run stays far below the CPU budget
        let heavy = inputs.iter().any(|i| matches!(i, Input::Corpus(p) if std::fs::metadata(p).map(|m| m.len()).unwrap_or(0) > 300_000));
        let threads = if heavy { *w.pick(&[1usize, 2]) } else { *w.pick(&[1usize, 1, 2, 2, 2, 3, 3, 4, 4, 6, 8, 16]) };
        let backends: Vec<BackendSel> = (0..2).map(|_| BackendSel::random(&mut w)).collect();
        let mut ops: Vec<Vec<Op>> = vec![];
        for _ in 0..threads {
            let n = if heavy { 1 } else if threads > 6 { 1 + w.below(2) } else { 1 + w.below(5) };
            let mut h = vec![];
            for _ in 0..n {
                let input = w.below(inputs.len());
                let arr = match &inputs[input] {
                    Input::Gen(set) => random_arrangement(set, &mut w),
                    Input::Corpus(_) => Arrangement::default(),
                    Input::CorpusSet(paths) => Arrangement { assign_perms: vec![], module_order: w.permutation(paths.len()), groups: vec![], dup: vec![] },
                };
                let mut arr = arr;
                if !self.xmod && w.chance(1, 6) {
                    // the same source once more, somewhere in the list (as `-d dir -m dir/x.asn` does)
                    for _ in 0..(1 + w.below(2)) {
                        arr.dup.push((w.below(8), w.below(9)));
                    }
                }
                h.push(Op {
                    input,
                    arr,
                    backend: w.pick(&backends).clone(),
                    files: w.chance(1, 3),
                    bp: BuilderPath { output_first: w.chance(1, 2), batch_paths: w.chance(1, 2), swap_backend: w.chance(1, 6), swap_late: false, legacy_path: false, output_mid: bmid.chance(1, 5) },
                    to_file: false,
                });
            }
            ops.push(h);
        }
        // every permutation of the modules of a small generated set, spread over the threads
        // ("every permutation for inputs with <= 5 units")
        if !heavy && w.chance(1, 8) {
            if let Some((gi, Input::Gen(set))) = inputs.iter().enumerate().find(|(_, i)| matches!(i, Input::Gen(s) if s.modules.len() >= 2 && s.modules.len() <= 4)) {
                let n = set.modules.len();
                let mut perms: Vec<Vec<usize>> = vec![vec![]];
                for _ in 0..n {
                    perms = perms.into_iter().flat_map(|p| (0..n).filter(|x| !p.contains(x)).map(|x| { let mut q = p.clone(); q.push(x); q }).collect::<Vec<_>>()).collect();
                }
                let be = w.pick(&backends).clone();
                let one_source = w.chance(1, 2);
                for (k, perm) in perms.into_iter().enumerate() {
                    let t = k % ops.len();
                    ops[t].push(Op {
                        input: gi,
                        arr: Arrangement { assign_perms: vec![], module_order: perm, groups: if one_source { vec![n] } else { vec![1; n] }, dup: vec![] },
                        backend: be.clone(),
                        files: false,
                        bp: BuilderPath::default(),
                        to_file: false,
                    });
                }
            }
        }
        {
            let mut tf = root.fork("to-file");
            for h in ops.iter_mut() {
                for op in h.iter_mut() {
                    op.to_file = tf.chance(1, 5);
                }
            }
        }
        let shared_dir = !self.fmt && !self.fine && ops.len() >= 2 && mix(seed, 0x5a4ed) % 3 == 0;
        if shared_dir {
            for (t, h) in ops.iter_mut().enumerate() {
                for (k, op) in h.iter_mut().enumerate() {
                    if t >= 2 {
                        op.to_file = false;
                        continue;
                    }
                    if k == 0 {
                        op.to_file = true;
                    }
                    if op.to_file {
                        op.backend = match (t, &op.backend) {
                            (0, _) => BackendSel::Ts,
                            (_, BackendSel::Ts) => BackendSel::Rasn(sut::RasnCfg::default_cfg()),
                            (_, b) => b.clone(),
                        };
                    }
                }
            }
        }
        let mut fmt_mode = None;
        if self.fmt {
            // few threads, short histories, the rasn backend only (it is the one that formats)
            ops.truncate(3);
            for h in &mut ops {
                h.truncate(4);
                for op in h.iter_mut() {
                    if op.backend == BackendSel::Ts {
                        op.backend = BackendSel::Rasn(sut::RasnCfg::default_cfg());
                    }
                }
            }
            let mut fm = root.fork("formatter");
            fmt_mode = Some(match fm.below(6) {
                0 => "ok".to_string(),
                1 => "slurp".to_string(),
                2 => "exit3".to_string(),
                _ => format!("failif:{}", 2 + fm.below(3)),
            });
        }
        let mut alloc_yield = 0u32;
        if self.fine {
            // at least two threads with at most three operations each; every k-th allocation yields
            while ops.len() < 2 {
                let again = ops[0].clone();
                ops.push(again);
            }
            ops.truncate(3);
            for h in &mut ops {
                h.truncate(3);
            }
            alloc_yield = *root.fork("allocmode").pick(&[1u32, 1, 2, 3, 7, 19, 64]);
        }
        // ---- schedule / faults
        let mut s = root.fork("schedule");
        let strategy = match s.below(7) {
            0 => Strategy::RunToCompletion,
            1 => Strategy::Random { percent: 5 },
            2 | 3 => Strategy::Random { percent: 30 },
            4 => Strategy::Random { percent: 100 },
            _ => Strategy::Pct { d: 1 + s.below(3) as u32, horizon: 400 },
        };
        let strategy = match (self.fine, strategy) {
            // with thousands of yield points per operation the useful strategies are rare switches
            (true, Strategy::RunToCompletion) => Strategy::Random { percent: 1 },
            (true, Strategy::Random { percent: 100 }) => Strategy::Random { percent: 2 },
            (true, Strategy::Pct { d, .. }) => Strategy::Pct { d: d + 2, horizon: 20_000 },
            (_, st) => st,
        };
        let mut f = root.fork("faults");
        let mut faults = vec![];
        for _ in 0..f.below(3) {
            let ord = f.below(6) as u32;
            faults.push(match f.below(3) {
                0 => Fault::errno(shim::C_READ, ord, libc::EINTR),
                1 => Fault { cls: shim::C_READ, ord, kind: shim::F_SHORT, a: 1 + f.below(200) as u64, b: 0 },
                _ => Fault::errno(shim::C_OPEN_R, ord, libc::EINTR),
            });
        }
        let simcfg = SimCfg {
            stack_kb: *root.fork("layout").pick(&[2048usize, 8192]),
            strategy,
            sched_seed: s.next_u64(),
            entropy: root.fork("hashkeys").next_u64(),
            faults,
            kill_at: None,
            buggify: vec![],
            capture_stdout: false,
            alloc_yield,
        };
        let reuse_paths = root.fork("layout").chance(1, 3);
        let apart = if self.xmod {
            Some(inputs.iter().map(|i| match i {
                Input::Gen(s) => Input::Gen(rename_shared_apart(s)),
                other => other.clone(),
            }).collect())
        } else {
            None
        };
        serde_json::to_value(&Plan { seed, inputs, ops, sim: simcfg, schedule: None, reuse_paths, shared_dir, apart, fmt_mode }).unwrap()
    }

    /// One pristine grandchild per (input, backend) key: canonical arrangement, literals,
    /// one thread, no history.
    fn reference(&self, plan: &Value, env: &Env) -> Value {
        let p = parse_plan(plan);
        if let Some(apart) = &p.apart {
            let mut q = p.clone();
            q.apart = None;
            let main = self.reference(&serde_json::to_value(&q).unwrap(), env);
            q.inputs = apart.clone();
            let ap = self.reference(&serde_json::to_value(&q).unwrap(), env);
            return json!({"main": main, "apart": ap});
        }
        let mut refs = serde_json::Map::new();
        for h in &p.ops {
            for op in h {
                let key = ref_key(op.input, &op.backend);
                if refs.contains_key(&key) {
                    continue;
                }
                let input = p.inputs[op.input].clone();
                let backend = op.backend.clone();
                let fmt_mode = p.fmt_mode.clone();
                let ref_home = format!("{}/fmt-ref", env.shm);
                if fmt_mode.is_some() {
                    install_formatter(&ref_home, env);
                }
                let out = fork_run(120, 600_000, |w| {
                    if let Some(m) = &fmt_mode {
                        std::env::remove_var("CARGO");
                        std::env::set_var("CARGO_HOME", &ref_home);
                        std::env::set_var("FAKE_RUSTFMT_MODE", m);
                    }
                    let arr = match &input {
                        Input::Gen(set) => canonical(set),
                        _ => Arrangement::default(),
                    };
                    let srcs: Vec<Src> = input_texts(&input, &arr).into_iter().map(Src::Literal).collect();
                    let o = sut::compile_to_string(&backend, &srcs, &BuilderPath::default());
                    let _ = w.write_all(serde_json::to_string(&o).unwrap().as_bytes());
                });
                let v = match (&out.exit, serde_json::from_slice::<Value>(&out.bytes)) {
                    (Exit::Code(0), Ok(v)) => v,
                    (e, _) => json!({"ref_crash": format!("{e:?}")}),
                };
                refs.insert(key, v);
            }
        }
        Value::Object(refs)
    }

    fn execute(&self, plan: &Value, refs: &Value, root: &str, env: &Env) -> Outcome {
        let p = parse_plan(plan);
        if let Some(apart) = &p.apart {
            let mut q = p.clone();
            q.apart = None;
            let mut out = self.execute(&serde_json::to_value(&q).unwrap(), &refs["main"], root, env);
            if !out.violations.is_empty() {
                let sub = format!("{root}/apart");
                std::fs::create_dir_all(&sub).unwrap();
                q.inputs = apart.clone();
                let again = self.execute(&serde_json::to_value(&q).unwrap(), &refs["apart"], &sub, env);
                if again.violations.is_empty() && again.harness_error.is_none() && again.inconclusive.is_empty() {
                    for v in &mut out.violations {
                        v.msg = format!("[{}] {}", v.oracle, v.msg);
                        v.oracle = "xmod-same-bare-name".into();
                    }
                    out.count("violations_that_disappear_when_renamed_apart", out.violations.len() as u64);
                }
            }
            return out;
        }
        let mut out = Outcome::default();
        std::env::remove_var("CARGO");
        std::env::set_var("CARGO_HOME", format!("{root}/cargo-home"));
        if let Some(m) = &p.fmt_mode {
            install_formatter(&format!("{root}/cargo-home"), env);
            std::env::set_var("FAKE_RUSTFMT_MODE", m);
            out.count(&format!("formatter_mode.{}", m.split(':').next().unwrap_or("")), 1);
        }

        // materialise sources (files are written before the shim is armed)
        let mut bodies: Vec<sim::Body<Vec<CompileOut>>> = vec![];
        let mut n_ops = 0;
        for (t, h) in p.ops.iter().enumerate() {
            // (backend, sources, builder path, files to (re)write right before the compilation)
            let mut prepared: Vec<(BackendSel, Vec<Src>, BuilderPath, Vec<(String, String)>, bool)> = vec![];
            for (k, op) in h.iter().enumerate() {
                let texts = input_texts(&p.inputs[op.input], &op.arr);
                let mut late_writes = vec![];
                let srcs: Vec<Src> = if op.files {
                    let dir = if p.reuse_paths { format!("{root}/t{t}/scratch") } else { format!("{root}/t{t}/op{k}") };
                    std::fs::create_dir_all(&dir).unwrap();
                    texts
                        .iter()
                        .enumerate()
                        .map(|(i, txt)| {
                            let path = format!("{dir}/s{i}.asn");
                            if p.shared_dir {
            out.count("probe.two_threads_deliver_into_one_directory", 1);
        }
        if p.inputs.iter().any(|i| matches!(i, Input::Corpus(f) if f.contains("/samples/c11/"))) {
            out.count("probe.hand_written_wide_alphabet_modules_among_the_inputs", 1);
        }
        if p.reuse_paths {
                                late_writes.push((path.clone(), txt.clone()));
                            } else {
                                std::fs::write(&path, txt).unwrap();
                            }
                            Src::Path(path)
                        })
                        .collect()
                } else {
                    texts.into_iter().map(Src::Literal).collect()
                };
                prepared.push((op.backend.clone(), srcs, op.bp.clone(), late_writes, op.to_file));
                n_ops += 1;
            }
            let thread_root = root.to_string();
            let shared_dir = p.shared_dir;
            bodies.push(Box::new(move || {
                let mut results = vec![];
                let shared = shared_dir && t < 2;
                let out_path = if shared { format!("{thread_root}/shared-out") } else { format!("{thread_root}/t{t}/bindings.out") };
                let _ = std::fs::create_dir_all(format!("{thread_root}/t{t}"));
                if shared {
                    let _ = std::fs::create_dir_all(&out_path);
                }
                for (k, (be, srcs, bp, late_writes, to_file)) in prepared.into_iter().enumerate() {
                    if !late_writes.is_empty() {
                        // harness I/O: outside the seam (not a simulated call, no yield point)
                        let tid = crate::sched::current_tid();
                        shim::register_thread(-1);
                        for (path, txt) in &late_writes {
                            std::fs::write(path, txt).unwrap();
                        }
                        shim::register_thread(tid);
                    }
                    sim::op_begin(&format!("t{t}.op{k}"));
                    let r = if to_file {
                        let mut r = sut::compile(&be, &srcs, &sut::OutSel::File(out_path.clone()), &bp);
                        if r.ok {
                            // harness I/O: outside the seam
                            let tid = crate::sched::current_tid();
                            shim::register_thread(-1);
                            let delivered = if shared { format!("{out_path}/generated{}", be.ext()) } else { out_path.clone() };
                            r.generated = std::fs::read_to_string(&delivered).unwrap_or_else(|e| format!("<cannot read the delivered file: {e}>"));
                            shim::register_thread(tid);
                        }
                        r
                    } else {
                        sut::compile_to_string(&be, &srcs, &bp)
                    };
                    sim::op_end(&format!("t{t}.op{k}"));
                    results.push(r);
                }
                results
            }));
        }
        if p.sim.alloc_yield > 0 {
            // fine-grained runs: initialise the compiler's lazily built tables first, in the
            // harness thread — otherwise a sim thread parked at an allocation INSIDE such an
            // initialisation holds the `Once`, and the next thread to need the table blocks on it
            // while holding the baton (the watchdog would resolve it, at the price of determinism)
            for be in [BackendSel::Rasn(sut::RasnCfg::default_cfg()), BackendSel::Ts] {
                let _ = sut::compile_to_string(&be, &[Src::Literal(WARM_UP.to_string())], &BuilderPath::default());
            }
        }
        let (results, rep) = sim::run_sim(&p.sim, p.schedule.clone(), root, bodies);
        out.steps = rep.sched.steps + rep.events.len() as u64;
        out.schedule = rep.sched.schedule.clone();
        if rep.unmodelled > 0 || rep.overflow {
            out.harness_error = Some(format!("shim: {} un-modelled calls, overflow={}", rep.unmodelled, rep.overflow));
        }

        // ---- oracle: every op against the pristine reference of its key
        let mut compared_ok = 0u64;
        let mut digest = String::new();
        for (t, h) in p.ops.iter().enumerate() {
            let Some(rs) = results.get(t).and_then(|r| r.as_ref()) else {
                out.harness_error = Some(format!("sim thread {t} died outside catch_unwind"));
                continue;
            };
            for (k, op) in h.iter().enumerate() {
                let r = &rs[k];
                digest.push_str(&format!("{t}.{k}:{}:{};", r.ok, fnv1a(r.generated.as_bytes())));
                let key = ref_key(op.input, &op.backend);
                let Some(r0) = refs.get(&key).and_then(|v| serde_json::from_value::<CompileOut>(v.clone()).ok()) else {
                    out.inconclusive.push(format!("reference for {key} crashed: {}", refs.get(&key).cloned().unwrap_or(Value::Null)));
                    continue;
                };
                if p.fmt_mode.is_some() && r0.ok {
                    out.count(if r0.generated.starts_with("// formatted by fake-rustfmt") { "probe.reference_is_formatted" } else { "probe.reference_is_unformatted_formatter_rejected_it" }, 1);
                }
                let what = match &p.inputs[op.input] {
                    Input::Corpus(pth) => format!("corpus file {}", pth.rsplit('/').next().unwrap_or("")),
                    Input::CorpusSet(ps) => format!("corpus set {:?} in source order {:?}", ps.iter().map(|p| p.rsplit('/').next().unwrap_or("")).collect::<Vec<_>>(), op.arr.module_order),
                    Input::Gen(set) => format!("generated set #{} ({} modules) arrangement {:?}", op.input, set.modules.len(), op.arr),
                };
                let ctx = format!("thread {t} op {k} on {what}, backend {}, files={}, {} threads, strategy {:?}", op.backend.short(), op.files, p.ops.len(), p.sim.strategy);
                if r.panic.is_some() || r0.panic.is_some() {
                    out.inconclusive.push(format!("panic (run: {:?}, reference: {:?}); {ctx}", r.panic, r0.panic));
                    continue;
                }
                if r0.ok != r.ok {
                    out.violate("same-discriminant", format!("reference is {} but this compilation is {}; {ctx}", r0.brief(), r.brief().replace(root, "<ROOT>")));
                    continue;
                }
                if !r0.ok {
                    continue;
                }
                compared_ok += 1;
                if r.generated != r0.generated {
                    let first = r.generated.bytes().zip(r0.generated.bytes()).position(|(a, b)| a != b).unwrap_or(r.generated.len().min(r0.generated.len()));
                    let lo = first.saturating_sub(60);
                    let show = |s: &str| {
                        let mut a = lo;
                        while !s.is_char_boundary(a.min(s.len())) {
                            a -= 1;
                        }
                        let mut b = (first + 60).min(s.len());
                        while !s.is_char_boundary(b) {
                            b -= 1;
                        }
                        s[a.min(s.len())..b].to_string()
                    };
                    out.violate(
                        "byte-identical",
                        format!("generated text differs from the pristine reference at byte {first} (lengths {} vs {}): reference …{}… / here …{}…; {ctx}", r0.generated.len(), r.generated.len(), show(&r0.generated), show(&r.generated)),
                    );
                }
                let w1: Vec<String> = r.sorted_warnings().iter().map(|w| w.replace(root, "<ROOT>")).collect();
                if w1 != r0.sorted_warnings() {
                    out.violate("same-warnings", format!("warning multiset differs: reference {:?} / here {:?}; {ctx}", r0.sorted_warnings(), w1));
                }
            }
        }
        // every pair of operations on the same key agree (follows from the above when the
        // reference exists; checked separately so that it also holds when it crashed)
        out.count("ops", n_ops);
        if p.ops.iter().map(|h| h.len()).sum::<usize>() >= 24 {
            out.count("probe.run_with_all_module_permutations", 1);
        }
        out.count("ops_compared_against_ok_reference", compared_ok);
        out.count(&format!("threads.{}", p.ops.len()), 1);
        out.count(&format!("strategy.{}", match p.sim.strategy { Strategy::Random { percent } => format!("random{percent}"), Strategy::Pct { d, .. } => format!("pct{d}"), Strategy::RunToCompletion => "run-to-completion".into() }), 1);
        out.count("context_switches", rep.sched.switches);
        out.count("forced_handoffs", rep.sched.forced_handoffs);
        if p.reuse_paths {
            out.count("probe.run_reusing_source_paths_with_new_content", 1);
        }
        out.count("probe.switch_inside_a_compilation", rep.sched.switches_inside);
        for (l, n) in &rep.sched.labels {
            out.count(&format!("yield.{l}"), *n);
        }
        for (f, n) in p.sim.faults.iter().zip(rep.fired.iter()) {
            out.count(&format!("fault_planned.{}", f.label()), 1);
            if *n > 0 {
                out.count(&format!("fault_fired.{}", f.label()), 1);
            }
        }
        let getrandom = rep.events.iter().filter(|e| e.call == "getrandom").count() as u64;
        out.count("getrandom_served", getrandom);
        if p.inputs.iter().any(|i| matches!(i, Input::Corpus(_))) {
            out.count("runs_with_corpus_input", 1);
        }
        if p.inputs.iter().any(|i| matches!(i, Input::CorpusSet(_))) {
            out.count("probe.runs_with_multi_file_corpus_set", 1);
        }
        if compared_ok > 0 {
            let plan_sig = fnv1a(serde_json::to_string(&p.ops).unwrap().as_bytes()) ^ fnv1a(serde_json::to_string(&p.inputs).unwrap().as_bytes());
            out.sigs.push(mix(plan_sig, rep.sched.sig));
        }
        out.log_hash = fnv1a(format!("{}|{digest}|{:?}", rep.log_text, out.violations).as_bytes());
        if std::env::var("DSIM_DEBUG_LOG").is_ok() {
            let _ = std::fs::write(format!("/dev/shm/dsim/log-{}-{}.txt", p.seed, std::process::id()), &rep.log_text);
        }
        out.sample = Some(json!({
            "threads": p.ops.len(), "ops_per_thread": p.ops.iter().map(|h| h.len()).collect::<Vec<_>>(),
            "inputs": p.inputs.iter().map(|i| match i { Input::CorpusSet(ps) => format!("corpus-set:{}", ps.len()), Input::Corpus(p) => format!("corpus:{}", p.rsplit('/').next().unwrap_or("")), Input::Gen(s) => format!("generated:{}mod/{}asg", s.modules.len(), s.n_assigns()) }).collect::<Vec<_>>(),
            "strategy": format!("{:?}", p.sim.strategy), "context_switches": rep.sched.switches, "switches_inside_compilation": rep.sched.switches_inside,
            "schedule_prefix": rep.sched.schedule.iter().take(40).collect::<Vec<_>>(),
        }));
        out
    }

    fn shrink(&self, plan: &Value) -> Vec<Value> {
        let p = parse_plan(plan);
        let mut out = vec![];
        let push = |q: Plan, out: &mut Vec<Value>| out.push(serde_json::to_value(&q).unwrap());
        // drop whole threads
        if p.ops.len() > 1 {
            for t in 0..p.ops.len() {
                let mut q = p.clone();
                q.ops.remove(t);
                q.schedule = None;
                push(q, &mut out);
            }
        }
        // drop single ops
        for t in 0..p.ops.len() {
            if p.ops[t].len() > 1 {
                for k in 0..p.ops[t].len() {
                    let mut q = p.clone();
                    q.ops[t].remove(k);
                    q.schedule = None;
                    push(q, &mut out);
                }
            }
        }
        // drop faults
        for i in 0..p.sim.faults.len() {
            let mut q = p.clone();
            q.sim.faults.remove(i);
            push(q, &mut out);
        }
        // no interleaving
        if p.sim.strategy != Strategy::RunToCompletion {
            let mut q = p.clone();
            q.sim.strategy = Strategy::RunToCompletion;
            q.schedule = None;
            push(q, &mut out);
        }
        // replace context switches by "stay", from the end backwards
        if let Some(s) = &p.schedule {
            for i in (0..s.len()).rev() {
                if s[i] != 255 && (i == 0 || s[i] != s[i - 1]) {
                    let mut q = p.clone();
                    let mut s2 = s.clone();
                    s2[i] = 255;
                    q.schedule = Some(s2);
                    push(q, &mut out);
                    if out.len() > 400 {
                        break;
                    }
                }
            }
        }
        // simplify ops
        for t in 0..p.ops.len() {
            for k in 0..p.ops[t].len() {
                let op = &p.ops[t][k];
                if op.files || op.bp != BuilderPath::default() {
                    let mut q = p.clone();
                    q.ops[t][k].files = false;
                    q.ops[t][k].bp = BuilderPath::default();
                    push(q, &mut out);
                }
                if let Input::Gen(set) = &p.inputs[op.input] {
                    if op.arr != canonical(set) {
                        let mut q = p.clone();
                        q.ops[t][k].arr = canonical(set);
                        push(q, &mut out);
                    }
                }
            }
        }
        // shrink generated inputs: drop assignments (arrangements referring to them are reset)
        for (ii, inp) in p.inputs.iter().enumerate() {
            if let Input::Gen(set) = inp {
                for mi in 0..set.modules.len() {
                    for ai in (0..set.modules[mi].assigns.len()).rev() {
                        let Some(s2) = set.without_assign(mi, ai) else { continue };
                        let mut q = p.clone();
                        q.inputs[ii] = Input::Gen(s2);
                        for h in &mut q.ops {
                            for op in h {
                                if op.input == ii {
                                    if let Some(pm) = op.arr.assign_perms.get_mut(mi) {
                                        // keep the relative order of the survivors
                                        *pm = pm.iter().filter(|x| **x != ai).map(|x| if *x > ai { *x - 1 } else { *x }).collect();
                                    }
                                }
                            }
                        }
                        push(q, &mut out);
                    }
                }
            }
        }
        if p.apart.is_some() {
            // keep the renamed-apart twin in step with the shrunk inputs
            out = out
                .into_iter()
                .map(|v| {
                    let mut q: Plan = serde_json::from_value(v).unwrap();
                    q.apart = Some(q.inputs.iter().map(|i| match i {
                        Input::Gen(s) => Input::Gen(rename_shared_apart(s)),
                        other => other.clone(),
                    }).collect());
                    serde_json::to_value(&q).unwrap()
                })
                .collect();
        }
        out
    }
}
