//! C12 — modules compile independently of their neighbours; IMPORTS become use lines.
//!
//! `deliveries` (Oracle A): a wrapper backend `Hist<B>` on the public `Backend` trait treats
//! the stream of `generate_module` calls as a transport it may reorder, duplicate and
//! replay (also across several compilations of one run, with other tagging/extensibility
//! defaults); every delivery to the long-lived inner backend must equal the same call on
//! a brand-new backend.
//! `subsets` (Oracles B, C): sub-multisets and orders of a module set handed to one
//! `Compiler`; M's block must equal its block in the compilation of M ∪ cone(M); every
//! IMPORTS clause must become one `use super::<module>::{…}` of exactly the imported
//! symbols; module-qualified references must go through `super::<module>::`.
//! `xmod-enumeral`, `xmod-name`: the same oracle B on inputs that deliberately share an
//! enumeral / named number or a bare top-level name between modules (findings F5, F1).

use crate::core::{Env, Outcome, Scenario, Tier, Violation};
use crate::gen::{self, AKind, GenCfg, ModuleSet};
use crate::proj::{self, ModBlock};
use crate::rng::{fnv1a, mix, Rng};
use crate::sim::{self, SimCfg};
use crate::sut::{self, BackendSel, BuilderPath, CompileOut, RasnCfg, Src};
use rasn_compiler::prelude::*;
use serde::{Deserialize, Serialize};
use serde_json::{json, Value};
use std::cell::RefCell;
use std::collections::{BTreeMap, BTreeSet};
use std::rc::Rc;

// ------------------------------------------------------------------ Oracle A: Hist<B>

struct Shared<B: Backend> {
    inner: Option<B>,
    make: Box<dyn Fn() -> B>,
    captured: Vec<Vec<ToplevelDefinition>>,
    rng: Rng,
    extra_percent: u32,
    deliveries: u64,
    redeliveries: u64,
    mismatches: Vec<String>,
    defaults_seen: BTreeSet<String>,
}

pub struct Hist<B: Backend> {
    shared: Option<Rc<RefCell<Shared<B>>>>,
    fallback: B,
}

fn module_desc(tlds: &[ToplevelDefinition]) -> String {
    tlds.first()
        .and_then(|t| match t {
            ToplevelDefinition::Type(t) => t.module_header.clone(),
            ToplevelDefinition::Value(v) => v.module_header.clone(),
            _ => None,
        })
        .map(|h| {
            let h = h.borrow();
            format!("{} (tags {:?}, ext {:?})", h.name, h.tagging_environment, h.extensibility_environment)
        })
        .unwrap_or_else(|| "<no header>".into())
}

fn gm_repr(r: &Result<GeneratedModule, GeneratorError>) -> String {
    match r {
        Ok(g) => format!("Ok({:?}; warnings {:?})", g.generated, g.warnings.iter().map(|w| w.to_string()).collect::<Vec<_>>()),
        Err(e) => format!("Err({e})"),
    }
}

impl<B: Backend> Shared<B> {
    /// deliver `tlds` to the long-lived backend and to a fresh one; record a mismatch
    fn deliver(&mut self, tlds: &[ToplevelDefinition], what: &str) -> Result<GeneratedModule, GeneratorError> {
        self.deliveries += 1;
        self.defaults_seen.insert(module_desc(tlds));
        if self.inner.is_none() {
            self.inner = Some((self.make)());
        }
        let long = self.inner.as_mut().unwrap().generate_module(tlds.to_vec());
        let fresh = (self.make)().generate_module(tlds.to_vec());
        let (a, b) = (gm_repr(&long), gm_repr(&fresh));
        if a != b && self.mismatches.len() < 4 {
            let first = a.bytes().zip(b.bytes()).position(|(x, y)| x != y).unwrap_or(a.len().min(b.len()));
            let lo = first.saturating_sub(80);
            let cut = |s: &str| {
                let mut x = lo.min(s.len());
                while !s.is_char_boundary(x) {
                    x -= 1;
                }
                let mut y = (first + 80).min(s.len());
                while !s.is_char_boundary(y) {
                    y -= 1;
                }
                s[x..y].to_string()
            };
            self.mismatches.push(format!(
                "{what} of module {} (delivery #{}): long-lived backend …{}… / fresh backend …{}…",
                module_desc(tlds),
                self.deliveries,
                cut(&a),
                cut(&b)
            ));
        }
        long
    }
}

impl<B: Backend> Default for Hist<B> {
    fn default() -> Self {
        Hist { shared: None, fallback: B::default() }
    }
}

impl<B: Backend> Backend for Hist<B> {
    type Config = B::Config;
    const FILE_EXTENSION: &'static str = B::FILE_EXTENSION;

    fn generate_module(&mut self, tlds: Vec<ToplevelDefinition>) -> Result<GeneratedModule, GeneratorError> {
        let Some(sh) = &self.shared else { return self.fallback.generate_module(tlds) };
        let mut s = sh.borrow_mut();
        // the transport may first re-deliver modules captured earlier (this compilation or an
        // earlier one of the run), in PRNG order
        let pct = s.extra_percent;
        while !s.captured.is_empty() && s.rng.chance(pct, 100) {
            let n = s.captured.len();
            let k = s.rng.below(n);
            let old = s.captured[k].clone();
            s.redeliveries += 1;
            let _ = s.deliver(&old, "replay");
        }
        // duplicate delivery of the current module, sometimes
        if s.rng.chance(pct / 2, 100) {
            s.redeliveries += 1;
            let _ = s.deliver(&tlds, "duplicate");
        }
        let r = s.deliver(&tlds, "delivery");
        s.captured.push(tlds);
        r
    }
    fn generate(&self, tld: ToplevelDefinition) -> Result<String, GeneratorError> {
        self.fallback.generate(tld)
    }
    fn config(&self) -> &Self::Config {
        self.fallback.config()
    }
    fn from_config(config: Self::Config) -> Self {
        Hist { shared: None, fallback: B::from_config(config) }
    }
    fn new(config: Self::Config, t: TaggingEnvironment, e: ExtensibilityEnvironment) -> Self {
        Hist { shared: None, fallback: B::new(config, t, e) }
    }
}

#[derive(Clone, Debug, Serialize, Deserialize, PartialEq)]
pub struct DelPlan {
    pub seed: u64,
    /// the compilations of this run, in order (inputs may repeat or be siblings)
    pub sets: Vec<ModuleSet>,
    pub orders: Vec<Vec<usize>>,
    pub backend: BackendSel,
    pub extra_percent: u32,
    pub delivery_seed: u64,
    pub sim: SimCfg,
}

fn run_deliveries<B: Backend + 'static>(p: &DelPlan, make: Box<dyn Fn() -> B>) -> (Vec<String>, u64, u64, usize, Vec<String>) {
    let shared = Rc::new(RefCell::new(Shared {
        inner: None,
        make,
        captured: vec![],
        rng: Rng::new(p.delivery_seed),
        extra_percent: p.extra_percent,
        deliveries: 0,
        redeliveries: 0,
        mismatches: vec![],
        defaults_seen: BTreeSet::new(),
    }));
    let mut results = vec![];
    for (set, order) in p.sets.iter().zip(p.orders.iter()) {
        let texts: Vec<String> = order.iter().map(|i| set.modules[*i].text(&set.modules)).collect();
        let hist: Hist<B> = Hist { shared: Some(shared.clone()), fallback: B::default() };
        let mut c = Compiler::<B, _>::new().with_backend(hist).add_asn_literal(texts[0].clone());
        for t in &texts[1..] {
            c = c.add_asn_literal(t.clone());
        }
        sim::op_begin("compile");
        let r = c.compile_to_string();
        sim::op_end("compile");
        results.push(match r {
            Ok(r) => format!("Ok({} bytes, {} warnings)", r.generated.len(), r.warnings.len()),
            Err(e) => format!("Err({e})"),
        });
    }
    // after the compilations the transport keeps delivering captured modules
    {
        let mut s = shared.borrow_mut();
        let n = s.captured.len();
        for _ in 0..n.min(6) {
            let k = s.rng.below(n);
            let old = s.captured[k].clone();
            s.redeliveries += 1;
            let _ = s.deliver(&old, "late replay");
        }
    }
    let s = shared.borrow();
    (s.mismatches.clone(), s.deliveries, s.redeliveries, s.defaults_seen.len(), results)
}

pub struct C12Deliveries;

fn c12_gen_cfg() -> GenCfg {
    let mut cfg = GenCfg::default_cfg();
    cfg.modules = (2, 5);
    cfg.assigns = (1, 9);
    cfg.comments = false; // see c11.rs: comment placement is not a definition
    cfg.classes = true;
    cfg.components_of = true;
    cfg.real_components = true;
    cfg.echo_inner_names = true;
    cfg
}

impl Scenario for C12Deliveries {
    fn property(&self) -> &'static str {
        "C12"
    }
    fn name(&self) -> &'static str {
        "deliveries"
    }
    fn runs(&self, tier: Tier) -> u64 {
        match tier {
            Tier::Quick => 5000,
            Tier::Thorough => 60000,
        }
    }
    fn plan(&self, seed: u64, _idx: u64, _tier: Tier, _env: &Env) -> Value {
        let root = Rng::new(seed);
        let mut w = root.fork("workload");
        let base = gen::generate(&mut w, &c12_gen_cfg());
        let mut sets = vec![base.clone()];
        for _ in 0..w.below(3) {
            sets.push(match w.below(3) {
                0 => base.clone(),
                1 => gen::sibling(&base, &mut w),
                _ => gen::generate(&mut w, &c12_gen_cfg()),
            });
        }
        let orders = sets.iter().map(|s| w.permutation(s.modules.len())).collect();
        let backend = BackendSel::random(&mut w);
        let mut f = root.fork("faults");
        let p = DelPlan {
            seed,
            sets,
            orders,
            backend,
            extra_percent: *f.pick(&[0u32, 20, 40, 60]),
            delivery_seed: f.next_u64(),
            sim: SimCfg::simple(root.fork("schedule").next_u64()),
        };
        serde_json::to_value(&p).unwrap()
    }
    fn execute(&self, plan: &Value, _refs: &Value, root: &str, _env: &Env) -> Outcome {
        let p: DelPlan = serde_json::from_value(plan.clone()).expect("c12 deliveries plan");
        let mut out = Outcome::default();
        std::env::remove_var("CARGO");
        std::env::set_var("CARGO_HOME", format!("{root}/cargo-home"));
        let p2 = p.clone();
        type R = (Vec<String>, u64, u64, usize, Vec<String>);
        let body: sim::Body<Result<R, String>> = Box::new(move || {
            std::panic::catch_unwind(std::panic::AssertUnwindSafe(|| match &p2.backend {
                BackendSel::Rasn(cfg) => {
                    let cfg = cfg.clone();
                    run_deliveries::<RasnBackend>(&p2, Box::new(move || RasnBackend::from_config(cfg.to_config())))
                }
                BackendSel::Ts => run_deliveries::<TypescriptBackend>(&p2, Box::new(TypescriptBackend::default)),
            }))
            .map_err(|_| "panic".to_string())
        });
        let (mut results, rep) = sim::run_sim(&p.sim, None, root, vec![body]);
        out.steps = rep.sched.steps + rep.events.len() as u64;
        match results.pop().flatten() {
            Some(Ok((mismatches, deliveries, redeliveries, defaults, res))) => {
                for m in &mismatches {
                    out.violate("delivery-equals-fresh-backend", format!("{m}; backend {}", p.backend.short()));
                }
                out.count("deliveries", deliveries);
                out.count("redeliveries", redeliveries);
                out.count("compilations", p.sets.len() as u64);
                if redeliveries > 0 {
                    out.count("probe.module_delivered_more_than_once_to_one_backend", 1);
                }
                if defaults > 1 {
                    out.count("probe.run_mixed_differing_module_defaults", 1);
                }
                out.sigs.push(mix(fnv1a(serde_json::to_string(&p.sets).unwrap().as_bytes()), mix(p.delivery_seed, p.extra_percent as u64)));
                out.log_hash = fnv1a(format!("{res:?}{mismatches:?}{deliveries}").as_bytes());
                out.sample = Some(json!({"compilations": p.sets.len(), "modules": p.sets.iter().map(|s| s.modules.len()).collect::<Vec<_>>(), "deliveries": deliveries, "redeliveries": redeliveries, "distinct_module_defaults": defaults, "backend": p.backend.short()}));
            }
            Some(Err(e)) => out.inconclusive.push(format!("panic inside a delivery run: {e}")),
            None => out.harness_error = Some("sim thread died".into()),
        }
        out
    }
    fn shrink(&self, plan: &Value) -> Vec<Value> {
        let p: DelPlan = serde_json::from_value(plan.clone()).unwrap();
        let mut out = vec![];
        if p.sets.len() > 1 {
            for i in 0..p.sets.len() {
                let mut q = p.clone();
                q.sets.remove(i);
                q.orders.remove(i);
                out.push(serde_json::to_value(&q).unwrap());
            }
        }
        for si in 0..p.sets.len() {
            for mi in 0..p.sets[si].modules.len() {
                for ai in (0..p.sets[si].modules[mi].assigns.len()).rev() {
                    if let Some(s2) = p.sets[si].without_assign(mi, ai) {
                        let mut q = p.clone();
                        q.sets[si] = s2;
                        out.push(serde_json::to_value(&q).unwrap());
                    }
                }
            }
        }
        out
    }
}

// ------------------------------------------------------------------ Oracles B and C

#[derive(Clone, Debug, Serialize, Deserialize, PartialEq)]
pub enum Form {
    Literals,
    OneLiteral,
    Files,
}

#[derive(Clone, Debug, Serialize, Deserialize, PartialEq)]
pub struct Compilation {
    /// indices into the set's modules, with repetitions, in hand-over order
    pub modules: Vec<usize>,
    pub form: Form,
    pub bp: BuilderPath,
}

#[derive(Clone, Debug, Serialize, Deserialize, PartialEq)]
pub struct SubPlan {
    pub seed: u64,
    pub set: ModuleSet,
    pub backend: BackendSel,
    pub comps: Vec<Compilation>,
    pub sim: SimCfg,
    /// "subsets" | "xmod-enumeral" | "xmod-name"
    pub flavour: String,
    /// xmod flavours: the same set with the deliberately shared spelling renamed apart, used
    /// to classify a violation as the known finding (it disappears) or as something else
    pub apart: Option<ModuleSet>,
}

fn rust_name_of(blocks: &[ModBlock]) -> Option<String> {
    blocks.first().map(|b| b.name.clone())
}

#[derive(Clone, Debug, Default, Serialize, Deserialize)]
pub struct SubRef {
    /// per module index: compile_to_string of {M} ∪ cone(M) (canonical order)
    pub standalone: Vec<CompileOut>,
    /// per module index: idents of the items each assignment produces (leave-one-out)
    pub attribution: Vec<BTreeMap<String, BTreeSet<String>>>,
    /// per module index: name of the generated module block
    pub block_name: Vec<Option<String>>,
}

fn compile_modules(set: &ModuleSet, idxs: &[usize], backend: &BackendSel) -> CompileOut {
    let srcs: Vec<Src> = idxs.iter().map(|i| Src::Literal(set.modules[*i].text(&set.modules))).collect();
    sut::compile_to_string(backend, &srcs, &BuilderPath::default())
}

/// the same, in a pristine process of its own (forked from the reference child, which has
/// not executed compiler code at that point for this key)
fn compile_modules_pristine(set: &ModuleSet, idxs: &[usize], backend: &BackendSel) -> CompileOut {
    use std::io::Write;
    let out = crate::proc::fork_run(120, 600_000, |w| {
        let o = compile_modules(set, idxs, backend);
        let _ = w.write_all(serde_json::to_string(&o).unwrap().as_bytes());
    });
    serde_json::from_slice::<CompileOut>(&out.bytes).unwrap_or(CompileOut { panic: Some(format!("reference crashed: {:?}", out.exit)), ..Default::default() })
}

fn cone_indices(set: &ModuleSet, mi: usize) -> Vec<usize> {
    let cone = set.cone(&set.modules[mi].name);
    (0..set.modules.len()).filter(|i| cone.contains(&set.modules[*i].name)).collect()
}

fn find_block<'a>(blocks: &'a [ModBlock], name: &Option<String>) -> Option<&'a ModBlock> {
    name.as_ref().and_then(|n| blocks.iter().find(|b| &b.name == n))
}

fn renamed_apart(set: &ModuleSet, flavour: &str) -> Option<ModuleSet> {
    let shared = match flavour {
        "xmod-enumeral" => "sharedmark",
        "xmod-name" => "Shared-Name",
        _ => return None,
    };
    let mut s = set.clone();
    for (mi, m) in s.modules.iter_mut().enumerate() {
        let to = format!("{shared}{mi}");
        for a in &mut m.assigns {
            a.text = a.text.replace(shared, &to);
            if a.name == shared {
                a.name = to.clone();
            }
            for r in &mut a.refs {
                if r == shared {
                    *r = to.clone();
                }
            }
        }
    }
    Some(s)
}

fn subsets_reference(p: &SubPlan) -> SubRef {
    let rust = matches!(p.backend, BackendSel::Rasn(_));
    let mut r = SubRef::default();
    for mi in 0..p.set.modules.len() {
        let cone = cone_indices(&p.set, mi);
        let o = compile_modules_pristine(&p.set, &cone, &p.backend);
        // the module's own block name: the block present with M and absent without it
        let mut name = None;
        let mut attr: BTreeMap<String, BTreeSet<String>> = BTreeMap::new();
        if o.ok {
            let blocks = proj::modules_of(&o.generated, rust).unwrap_or_default();
            let others: Vec<usize> = cone.iter().copied().filter(|i| *i != mi).collect();
            let without: BTreeSet<String> = if others.is_empty() {
                BTreeSet::new()
            } else {
                let ow = compile_modules(&p.set, &others, &p.backend);
                proj::modules_of(&ow.generated, rust).unwrap_or_default().into_iter().map(|b| b.name).collect()
            };
            name = blocks.iter().map(|b| b.name.clone()).find(|n| !without.contains(n));
            if name.is_none() {
                name = rust_name_of(&blocks);
            }
            // leave-one-out attribution of item identifiers to assignments (rust only; used by oracle C)
            if rust {
                // multiset of item identifiers (two items may carry the same identifier: a top-level
                // type and the derived name of another type's anonymous member)
                let count = |b: Option<&ModBlock>| -> BTreeMap<String, usize> {
                    let mut m = BTreeMap::new();
                    if let Some(b) = b {
                        for k in b.item_keys() {
                            *m.entry(proj::key_ident(&k)).or_insert(0) += 1;
                        }
                    }
                    m
                };
                let full = count(find_block(&blocks, &name));
                for ai in 0..p.set.modules[mi].assigns.len() {
                    let mut s2 = p.set.clone();
                    let removed = s2.modules[mi].assigns.remove(ai);
                    let o2 = compile_modules(&s2, &cone, &p.backend);
                    if !o2.ok {
                        continue;
                    }
                    let b2 = proj::modules_of(&o2.generated, rust).unwrap_or_default();
                    let less = count(find_block(&b2, &name));
                    attr.insert(removed.name.clone(), full.iter().filter(|(k, n)| less.get(*k).copied().unwrap_or(0) < **n).map(|(k, _)| k.clone()).collect());
                }
            }
        }
        r.standalone.push(o);
        r.attribution.push(attr);
        r.block_name.push(name);
    }
    r
}

fn gen_for_flavour(w: &mut Rng, flavour: &str) -> ModuleSet {
    let mut cfg = c12_gen_cfg();
    cfg.value_import_bias = w.chance(1, 3);
    cfg.recursion_bias = w.chance(1, 2);
    match flavour {
        "xmod-enumeral" => {
            cfg.xmod_same_enumeral = true;
            cfg.assigns = (3, 9);
        }
        "xmod-name" => cfg.xmod_same_name = true,
        _ => {}
    }
    gen::generate(w, &cfg)
}

fn subsets_plan(seed: u64, flavour: &str) -> Value {
    let root = Rng::new(seed);
    let mut w = root.fork("workload");
    let mut bmid = root.fork("builder-mid");
    let set = gen_for_flavour(&mut w, flavour);
    let n = set.modules.len();
    let backend = BackendSel::random(&mut w);
    let mut comps = vec![];
    for _ in 0..(2 + w.below(4)) {
        // a sub-multiset containing the cone of a chosen module, plus random neighbours and duplicates
        let m = w.below(n);
        let mut mods: Vec<usize> = cone_indices(&set, m);
        for i in 0..n {
            if !mods.contains(&i) && w.chance(1, 2) {
                mods.push(i);
            }
        }
        for _ in 0..w.below(3) {
            if w.chance(1, 3) {
                mods.push(w.below(n)); // duplicate (inside or outside the cone)
            }
        }
        w.shuffle(&mut mods);
        comps.push(Compilation {
            modules: mods,
            form: match w.below(4) {
                0 => Form::OneLiteral,
                1 => Form::Files,
                _ => Form::Literals,
            },
            bp: BuilderPath { output_first: w.chance(1, 2), batch_paths: w.chance(1, 2), swap_backend: w.chance(1, 6), swap_late: false, legacy_path: false, output_mid: bmid.chance(1, 5) },
        });
    }
    // and the full set once, in a random order
    let mut all: Vec<usize> = (0..n).collect();
    w.shuffle(&mut all);
    comps.push(Compilation { modules: all, form: Form::Literals, bp: BuilderPath::default() });
    let mut simcfg = SimCfg::simple(root.fork("schedule").next_u64());
    simcfg.entropy = root.fork("hashkeys").next_u64();
    let apart = renamed_apart(&set, flavour);
    serde_json::to_value(&SubPlan { seed, set, backend, comps, sim: simcfg, flavour: flavour.to_string(), apart }).unwrap()
}

fn first_diff(a: &str, b: &str) -> String {
    let first = a.bytes().zip(b.bytes()).position(|(x, y)| x != y).unwrap_or(a.len().min(b.len()));
    let cut = |s: &str| {
        let mut x = first.saturating_sub(70).min(s.len());
        while !s.is_char_boundary(x) {
            x -= 1;
        }
        let mut y = (first + 70).min(s.len());
        while !s.is_char_boundary(y) {
            y -= 1;
        }
        s[x..y].to_string()
    };
    format!("at byte {first}: stand-alone …{}… / here …{}…", cut(a), cut(b))
}

/// (rust module, identifier) pairs the linker may import into `m` on its own: the governing
/// types of the values `m` imports
fn associated_of(p: &SubPlan, refs: &SubRef, m: &gen::Module) -> BTreeSet<(String, String)> {
    let name_of = |modname: &str| p.set.modules.iter().position(|x| x.name == modname).and_then(|i| refs.block_name[i].clone());
    let attr_of = |modname: &str, sym: &str| -> BTreeSet<String> {
        p.set.modules.iter().position(|x| x.name == modname).and_then(|i| refs.attribution[i].get(sym).cloned()).unwrap_or_default()
    };
    let mut associated = BTreeSet::new();
    for imp in &m.imports {
        let Some(em) = p.set.get(&imp.from) else { continue };
        for sym in &imp.symbols {
            for a in em.assigns.iter().filter(|a| &a.name == sym && a.kind == AKind::Value) {
                for r in &a.refs {
                    let home = em.imports.iter().find(|i| i.symbols.contains(r)).map(|i| i.from.clone()).unwrap_or(em.name.clone());
                    if let Some(target) = name_of(&home) {
                        for ident in attr_of(&home, r) {
                            associated.insert((target.clone(), ident));
                        }
                    }
                }
            }
            // an imported information object (or object set): the named types of the fixed-type
            // fields of its class, wherever that class lives
            for a in em.assigns.iter().filter(|a| &a.name == sym && a.kind == AKind::Class) {
                for class_name in &a.refs {
                    let class_home = em.imports.iter().find(|i| i.symbols.contains(class_name)).map(|i| i.from.clone()).unwrap_or(em.name.clone());
                    let Some(cm) = p.set.get(&class_home) else { continue };
                    for class in cm.assigns.iter().filter(|c| &c.name == class_name && c.kind == AKind::Class) {
                        for field_ty in &class.refs {
                            let home = cm.imports.iter().find(|i| i.symbols.contains(field_ty)).map(|i| i.from.clone()).unwrap_or(cm.name.clone());
                            if let Some(target) = name_of(&home) {
                                for ident in attr_of(&home, field_ty) {
                                    associated.insert((target.clone(), ident));
                                }
                            }
                        }
                    }
                }
            }
        }
    }
    associated
}

/// Oracle C on one module's block of one compilation
/// every `super :: <module> :: <Ident>` in a normalised token text
fn qualified_paths(text: &str) -> Vec<(String, String)> {
    let is_ident = |t: &str| t.chars().next().is_some_and(|c| c.is_alphabetic() || c == '_') && t.chars().all(|c| c.is_alphanumeric() || c == '_');
    let t: Vec<&str> = text.split_whitespace().collect();
    let mut out = vec![];
    for i in 0..t.len().saturating_sub(4) {
        if t[i] == "super" && t[i + 1] == "::" && t[i + 3] == "::" && is_ident(t[i + 2]) && is_ident(t[i + 4]) {
            out.push((t[i + 2].to_string(), t[i + 4].to_string()));
        }
    }
    out.sort();
    out.dedup();
    out
}

fn check_imports(out: &mut Outcome, p: &SubPlan, refs: &SubRef, mi: usize, block: &ModBlock, ctx: &str) {
    let BackendSel::Rasn(cfg) = &p.backend else { return };
    let m = &p.set.modules[mi];
    let name_of = |modname: &str| p.set.modules.iter().position(|x| x.name == modname).and_then(|i| refs.block_name[i].clone());
    let attr_of = |modname: &str, sym: &str| -> BTreeSet<String> {
        p.set.modules.iter().position(|x| x.name == modname).and_then(|i| refs.attribution[i].get(sym).cloned()).unwrap_or_default()
    };
    let sibling_uses: Vec<&proj::UseDecl> = block.uses.iter().filter(|u| u.path.first().map(|s| s.as_str()) == Some("super")).collect();
    for imp in &m.imports {
        let Some(target) = name_of(&imp.from) else { continue };
        let decls: Vec<&&proj::UseDecl> = sibling_uses.iter().filter(|u| u.path == vec!["super".to_string(), target.clone()]).collect();
        if decls.is_empty() {
            out.violate("imports-become-use", format!("IMPORTS … FROM {} has no `use super::{target}::{{…}}` declaration; {ctx}", imp.from));
            continue;
        }
        // The linker may add a second declaration for the same module when it imports the
        // governing type of an imported value (validator/mod.rs, associated type imports);
        // what is judged is the set of names imported from that module.
        let names: BTreeSet<String> = decls.iter().flat_map(|d| d.names.iter().cloned()).collect();
        let names = &names;
        let decl_text: String = decls.iter().map(|d| d.text.clone()).collect::<Vec<_>>().join(" ");
        out.count("import_clauses_checked", 1);
        // How a clause that imports an information object class or a parameterized template is
        // spelled (wildcard or names) follows rules of the backend that the property does not
        // state; for such clauses only the existence of the declaration is judged here — the
        // block comparison (oracle B) still sees any influence of a neighbour on it.
        let exporter = p.set.get(&imp.from);
        // (what a symbol IS comes from the generator's model of the exporting module; only when the
        // exporter is not part of the set does the spelling have to do. A name in capitals and
        // hyphens WITHOUT a digit is taken for a class by the compiler whatever it is — a rule of
        // the backend, not judged; a type reference with a digit in it (T1, E164) is judged exactly)
        let special = imp.symbols.iter().any(|s| {
            s.contains("{}")
                || s.chars().all(|c| c.is_uppercase() || c == '-')
                || (exporter.is_none() && s.chars().all(|c| c.is_uppercase() || c == '-' || c.is_ascii_digit()))
                || exporter.is_some_and(|em| em.assigns.iter().any(|a| (&a.name == s || format!("{}{{}}", a.name) == *s) && matches!(a.kind, AKind::Class | AKind::Param)))
        });
        if special {
            out.count("import_clauses_with_class_or_template", 1);
            continue;
        }
        if cfg.default_wildcard_imports {
            let assoc = associated_of(p, refs, m);
            let extras_ok = names.iter().all(|n| n == "*" || assoc.contains(&(target.clone(), n.clone())));
            if !names.contains("*") || !extras_ok {
                out.violate("imports-become-use", format!("default_wildcard_imports is set but the use declaration for {} is {:?}; {ctx}", imp.from, names));
            }
            continue;
        }
        if names.contains("*") {
            out.violate("imports-become-use", format!("wildcard use for {} although default_wildcard_imports is off and only {:?} are imported; {ctx}", imp.from, imp.symbols));
            continue;
        }
        // every imported symbol is matched by exactly one entry that the exporting module
        // really produces for that assignment (learned by leave-one-out, no mangling rules here)
        let mut unmatched: BTreeSet<String> = names.clone();
        let mut attribution_complete = true;
        for sym in &imp.symbols {
            let cands = attr_of(&imp.from, sym);
            if cands.is_empty() {
                attribution_complete = false;
                continue; // attribution unknown (e.g. exporting module does not compile alone)
            }
            let hit: Vec<&String> = names.iter().filter(|n| cands.contains(*n)).collect();
            if hit.is_empty() {
                out.violate("imports-become-use", format!("imported symbol {sym} FROM {} has no entry in `{}` (its items in the exporting module: {:?}); {ctx}", imp.from, decl_text, cands));
            }
            for h in hit {
                unmatched.remove(h);
            }
        }
        // additional entries are accepted only for types associated with imported values
        for extra in unmatched {
            if !attribution_complete {
                break; // an entry may belong to a symbol whose items are unknown
            }
            let exporting = p.set.get(&imp.from);
            let assoc_ok = exporting.is_some_and(|em| {
                imp.symbols.iter().any(|s| {
                    em.assigns.iter().any(|a| &a.name == s && a.kind == AKind::Value && a.refs.iter().any(|r| attr_of(&imp.from, r).contains(&extra)))
                })
            });
            let assoc_ok = assoc_ok || name_of(&imp.from).is_some_and(|t| associated_of(p, refs, m).contains(&(t, extra.clone())));
            if !assoc_ok {
                out.violate("imports-become-use", format!("`{}` names {extra}, which is not among the imported symbols {:?} nor the type of an imported value; {ctx}", decl_text, imp.symbols));
            }
        }
    }
    // no use declaration of a sibling module the source does not import from — except for the
    // governing types of imported values, which the linker imports on its own (documented
    // behaviour, validator/mod.rs "associated type imports"); such a type may live in a third
    // module when the exporting module imported it itself
    let associated: BTreeSet<(String, String)> = associated_of(p, refs, m); // (rust module, ident)
    let allowed: BTreeSet<String> = m.imports.iter().filter_map(|i| name_of(&i.from)).collect();
    for u in &sibling_uses {
        if u.path.len() == 2 && !allowed.contains(&u.path[1]) {
            let all_associated = u.names.iter().all(|n| associated.contains(&(u.path[1].clone(), n.clone())))
                || (cfg.default_wildcard_imports && u.names.len() == 1 && u.names.contains("*") && associated.iter().any(|(md, _)| md == &u.path[1]));
            if !all_associated {
                out.violate("imports-become-use", format!("`{}` refers to a module the source has no IMPORTS clause for; {ctx}", u.text));
            }
        }
    }
    // module-qualified references resolve to that module
    for a in &m.assigns {
        for r in &a.refs {
            if let Some((modname, sym)) = r.split_once('.') {
                let (Some(target), cands) = (name_of(modname), attr_of(modname, sym)) else { continue };
                if cands.is_empty() {
                    continue;
                }
                out.count("qualified_references_checked", 1);
                let ok = cands.iter().any(|c| block.text.contains(&format!("super :: {target} :: {c}")));
                if !ok {
                    out.violate("qualified-reference-resolves", format!("{modname}.{sym} in assignment {} does not appear as super::{target}::<{:?}>; {ctx}", a.name, cands));
                }
            }
        }
    }
}

fn subsets_execute(p: &SubPlan, refs: &Value, root: &str) -> Outcome {
    let mut out = Outcome::default();
    let Ok(refs) = serde_json::from_value::<SubRef>(refs.clone()) else {
        out.inconclusive.push(format!("reference crashed: {refs}"));
        return out;
    };
    std::env::remove_var("CARGO");
    std::env::set_var("CARGO_HOME", format!("{root}/cargo-home"));
    let rust = matches!(p.backend, BackendSel::Rasn(_));
    let mut prepared = vec![];
    for (ci, c) in p.comps.iter().enumerate() {
        let texts: Vec<String> = c.modules.iter().map(|i| p.set.modules[*i].text(&p.set.modules)).collect();
        let srcs: Vec<Src> = match c.form {
            Form::Literals => texts.into_iter().map(Src::Literal).collect(),
            Form::OneLiteral => vec![Src::Literal(texts.join("\n"))],
            Form::Files => {
                let dir = format!("{root}/c{ci}");
                std::fs::create_dir_all(&dir).unwrap();
                texts
                    .iter()
                    .enumerate()
                    .map(|(i, t)| {
                        let f = format!("{dir}/m{i}.asn");
                        std::fs::write(&f, t).unwrap();
                        Src::Path(f)
                    })
                    .collect()
            }
        };
        prepared.push((srcs, c.bp.clone()));
    }
    let be = p.backend.clone();
    let body: sim::Body<Vec<CompileOut>> = Box::new(move || {
        prepared
            .into_iter()
            .map(|(srcs, bp)| {
                sim::op_begin("compile");
                let r = sut::compile_to_string(&be, &srcs, &bp);
                sim::op_end("compile");
                r
            })
            .collect()
    });
    let (mut results, rep) = sim::run_sim(&p.sim, None, root, vec![body]);
    out.steps = rep.sched.steps + rep.events.len() as u64;
    let Some(results) = results.pop().flatten() else {
        out.harness_error = Some("sim thread died".into());
        return out;
    };
    let mut digest = String::new();
    let mut compared = 0u64;
    for (ci, (c, r)) in p.comps.iter().zip(results.iter()).enumerate() {
        digest.push_str(&format!("{ci}:{}:{};", r.ok, fnv1a(r.generated.as_bytes())));
        if r.panic.is_some() {
            out.inconclusive.push(format!("panic {:?}", r.panic));
            continue;
        }
        if !r.ok {
            out.count("compilation_err", 1);
            continue;
        }
        let blocks = match proj::modules_of(&r.generated, rust) {
            Ok(b) => b,
            Err(e) => {
                out.inconclusive.push(e);
                continue;
            }
        };
        // ---- oracle E: a module-qualified path resolves to THAT module. Whatever made the compiler
        // write `super::<m>::<T>` into an item (a qualified reference in the source, a member copied
        // with COMPONENTS OF, a template instance), <m> must be a module that defines <T>. Judged
        // when <m> is part of this compilation; `use` declarations are oracle C's business.
        if rust && !p.flavour.starts_with("xmod") {
            for b in &blocks {
                for (key, text) in &b.items {
                    for (m, ident) in qualified_paths(text) {
                        let Some(target) = blocks.iter().find(|x| x.name == m) else { continue };
                        out.count("qualified_paths_checked", 1);
                        let defined = target.items.iter().any(|(k, _)| !k.starts_with("impl") && proj::key_ident(k) == ident);
                        if !defined {
                            out.violate(
                                "qualified-path-resolves",
                                format!(
                                    "item `{key}` of block {} names super::{m}::{ident}, but block {m} defines no {ident}; compilation {ci} of modules {:?} ({:?}), backend {}",
                                    b.name,
                                    c.modules.iter().map(|i| p.set.modules[*i].name.clone()).collect::<Vec<_>>(),
                                    c.form,
                                    p.backend.short()
                                ),
                            );
                        }
                    }
                }
            }
        }
        let present: BTreeSet<usize> = c.modules.iter().copied().collect();
        let dup = c.modules.len() != present.len();
        for mi in present {
            let sa = &refs.standalone[mi];
            if !sa.ok {
                continue;
            }
            let Ok(sb) = proj::modules_of(&sa.generated, rust) else { continue };
            // the property speaks about M compiled with (at least) the modules it imports from
            let cone: BTreeSet<usize> = cone_indices(&p.set, mi).into_iter().collect();
            if !cone.iter().all(|i| c.modules.contains(i)) {
                // Oracle B does not apply (its reference contains the cone), but an IMPORTS clause
                // becomes a use declaration whether or not the exporting module is compiled too
                if rust {
                    if let Some(got) = find_block(&blocks, &refs.block_name[mi]) {
                        let ctx = format!(
                            "module {} in compilation {ci} of modules {:?} ({:?}), compiled WITHOUT some module it imports from, backend {}",
                            p.set.modules[mi].name,
                            c.modules.iter().map(|i| p.set.modules[*i].name.clone()).collect::<Vec<_>>(),
                            c.form,
                            p.backend.short()
                        );
                        out.count("probe.imports_checked_without_exporter", 1);
                        check_imports(&mut out, p, &refs, mi, got, &ctx);
                    }
                }
                continue;
            }
            let Some(want) = find_block(&sb, &refs.block_name[mi]) else {
                continue; // a module without definitions has no block anywhere
            };
            let Some(got) = find_block(&blocks, &refs.block_name[mi]) else {
                let ctx = format!("module {} in compilation {ci} of modules {:?} ({:?}), backend {}", p.set.modules[mi].name, c.modules, c.form, p.backend.short());
                out.violate("block-equals-standalone", format!("no block named {:?} in the output; {ctx}", refs.block_name[mi]));
                continue;
            };
            compared += 1;
            let ctx = format!(
                "module {} in compilation {ci} of modules {:?} ({:?}{}), its cone is {:?}, backend {}",
                p.set.modules[mi].name,
                c.modules.iter().map(|i| p.set.modules[*i].name.clone()).collect::<Vec<_>>(),
                c.form,
                if dup { ", with duplicates" } else { "" },
                cone_indices(&p.set, mi).iter().map(|i| p.set.modules[*i].name.clone()).collect::<Vec<_>>(),
                p.backend.short()
            );
            if want.text != got.text {
                out.violate("block-equals-standalone", format!("{}; {ctx}", first_diff(&want.text, &got.text)));
            }
            if rust {
                check_imports(&mut out, p, &refs, mi, got, &ctx);
            }
        }
        if dup {
            out.count("probe.compilation_with_duplicated_module", 1);
        }
        if c.modules.len() < p.set.modules.len() {
            out.count("probe.compilation_with_dropped_neighbour", 1);
        }
    }
    out.count("blocks_compared", compared);
    out.count("compilations", p.comps.len() as u64);
    let defaults: BTreeSet<String> = p.set.modules.iter().map(|m| format!("{}{}", m.tags, m.ext_implied)).collect();
    if defaults.len() > 1 {
        out.count("probe.set_with_differing_module_defaults", 1);
    }
    if p.set.modules.iter().any(|m| !m.imports.is_empty()) {
        out.count("probe.set_with_imports", 1);
    }
    if compared > 0 {
        out.sigs.push(mix(fnv1a(serde_json::to_string(&p.set).unwrap().as_bytes()), fnv1a(serde_json::to_string(&p.comps).unwrap().as_bytes())));
    }
    out.log_hash = fnv1a(format!("{digest}{:?}", out.violations).as_bytes());
    out.sample = Some(json!({"modules": p.set.modules.iter().map(|m| format!("{} [{} TAGS{}] imports {:?}", m.name, m.tags, if m.ext_implied {", EXT IMPLIED"} else {""}, m.imports.iter().map(|i| i.from.clone()).collect::<Vec<_>>())).collect::<Vec<_>>(), "compilations": p.comps.iter().map(|c| format!("{:?} {:?}", c.modules, c.form)).collect::<Vec<_>>(), "backend": p.backend.short()}));
    out
}

fn subsets_shrink(p: &SubPlan) -> Vec<Value> {
    let mut out = vec![];
    if p.comps.len() > 1 {
        for i in 0..p.comps.len() {
            let mut q = p.clone();
            q.comps = vec![p.comps[i].clone()];
            out.push(serde_json::to_value(&q).unwrap());
        }
    }
    for ci in 0..p.comps.len() {
        for k in 0..p.comps[ci].modules.len() {
            if p.comps[ci].modules.len() > 1 {
                let mut q = p.clone();
                q.comps[ci].modules.remove(k);
                out.push(serde_json::to_value(&q).unwrap());
            }
            let _ = k;
        }
    }
    for mi in 0..p.set.modules.len() {
        for ai in (0..p.set.modules[mi].assigns.len()).rev() {
            if let Some(s2) = p.set.without_assign(mi, ai) {
                let mut q = p.clone();
                q.apart = renamed_apart(&s2, &p.flavour);
                q.set = s2;
                out.push(serde_json::to_value(&q).unwrap());
            }
        }
    }
    if let BackendSel::Rasn(c) = &p.backend {
        if *c != RasnCfg::default_cfg() {
            let mut q = p.clone();
            q.backend = BackendSel::Rasn(RasnCfg::default_cfg());
            out.push(serde_json::to_value(&q).unwrap());
        }
    }
    out
}

macro_rules! subsets_scenario {
    ($ty:ident, $name:expr, $quick:expr, $thorough:expr) => {
        pub struct $ty;
        impl Scenario for $ty {
            fn property(&self) -> &'static str {
                "C12"
            }
            fn name(&self) -> &'static str {
                $name
            }
            fn runs(&self, tier: Tier) -> u64 {
                match tier {
                    Tier::Quick => $quick,
                    Tier::Thorough => $thorough,
                }
            }
            fn needs_reference(&self) -> bool {
                true
            }
            fn plan(&self, seed: u64, _idx: u64, _tier: Tier, _env: &Env) -> Value {
                subsets_plan(seed, $name)
            }
            fn reference(&self, plan: &Value, _env: &Env) -> Value {
                let p: SubPlan = serde_json::from_value(plan.clone()).expect("c12 plan");
                let main = subsets_reference(&p);
                let apart = p.apart.as_ref().map(|a| {
                    let mut q = p.clone();
                    q.set = a.clone();
                    subsets_reference(&q)
                });
                json!({"main": main, "apart": apart})
            }
            fn execute(&self, plan: &Value, refs: &Value, root: &str, _env: &Env) -> Outcome {
                let p: SubPlan = serde_json::from_value(plan.clone()).expect("c12 plan");
                let mut out = subsets_execute(&p, &refs["main"], root);
                if let (Some(a), false) = (&p.apart, out.violations.is_empty()) {
                    // classify: the same compilations with the shared spelling renamed apart
                    let mut q = p.clone();
                    q.set = a.clone();
                    let again = subsets_execute(&q, &refs["apart"], root);
                    if again.violations.is_empty() && again.harness_error.is_none() && again.inconclusive.is_empty() {
                        for v in &mut out.violations {
                            v.msg = format!("[{}] {}", v.oracle, v.msg);
                            v.oracle = if $name == "xmod-enumeral" { "xmod-same-enumeral".into() } else { "xmod-same-bare-name".into() };
                        }
                        out.count("violations_that_disappear_when_renamed_apart", out.violations.len() as u64);
                    }
                }
                out
            }
            fn shrink(&self, plan: &Value) -> Vec<Value> {
                let p: SubPlan = serde_json::from_value(plan.clone()).expect("c12 plan");
                subsets_shrink(&p)
            }
            fn finding_key(&self, _plan: &Value, v: &Violation) -> String {
                v.oracle.clone()
            }
        }
    };
}

subsets_scenario!(C12Subsets, "subsets", 2500, 30000);
subsets_scenario!(C12XmodEnumeral, "xmod-enumeral", 300, 3000);
subsets_scenario!(C12XmodName, "xmod-name", 300, 3000);

// =====================================================================  tag-keywords
//
// "Tagging defaults never leak from one module into another", as a relation between two
// compilations of the same set: in every module that says EXPLICIT TAGS, a tag written without a
// keyword means EXPLICIT. Writing that keyword out changes nothing in the module itself — and it
// must change nothing in any OTHER module either, in particular not in a module with another
// default that inherits those members with COMPONENTS OF or instantiates a template that carries
// them. (Only EXPLICIT is spelled out: `[n] EXPLICIT T` is legal for every T, whereas
// `[n] IMPLICIT T` is not when T is a CHOICE or an open type.)

#[derive(Clone, Debug, Serialize, Deserialize, PartialEq)]
pub struct TagPlan {
    pub seed: u64,
    pub set: ModuleSet,
    pub cfg: RasnCfg,
    /// order in which the modules are handed over
    pub order: Vec<usize>,
    pub one_literal: bool,
    pub sim: SimCfg,
}

/// `text` with the keyword EXPLICIT written after every tag that has none
pub fn spell_out_explicit(text: &str) -> (String, usize) {
    let b = text.as_bytes();
    let map = gen::token_map(text);
    let mut out = String::with_capacity(text.len() + 64);
    let mut n = 0;
    let mut i = 0;
    let mut copied = 0;
    // Only the tags of the assignment's own type and of its DIRECT components are spelled out
    // (brace depth 0, and depth 1 of a SEQUENCE / SET / CHOICE): the compiler applies a module's
    // default to exactly those and leaves the tags of nested anonymous types at IMPLICIT whatever
    // the default says — a defect against C03 ("at every nesting depth"), which is not decided
    // here; it would make this relation fail inside the EXPLICIT module itself (DESIGN 10.2).
    let rhs = text.find("::=").map_or(0, |k| k + 3);
    let head: Vec<&str> = text[rhs..].split_whitespace().filter(|t| !t.starts_with('[') && !t.ends_with(']') && !matches!(*t, "IMPLICIT" | "EXPLICIT" | "APPLICATION" | "PRIVATE" | "UNIVERSAL")).take(2).collect();
    let structured = matches!(head.first().copied(), Some("SEQUENCE") | Some("SET") | Some("CHOICE")) && head.get(1).is_some_and(|t| t.starts_with('{'));
    let mut depth = 0usize;
    let mut in_group = false;
    while i < b.len() {
        if map[i] == gen::ByteClass::Token {
            match b[i] {
                b'{' => depth += 1,
                b'}' => depth = depth.saturating_sub(1),
                b'[' if b.get(i + 1) == Some(&b'[') => in_group = true,
                b']' if b.get(i + 1) == Some(&b']') => in_group = false,
                _ => {}
            }
        }
        let reachable = i >= rhs && !in_group && (depth == 0 || (depth == 1 && structured));
        if reachable && b[i] == b'[' && map[i] == gen::ByteClass::Token && b.get(i + 1) != Some(&b'[') && (i == 0 || b[i - 1] != b'[') {
            if let Some(len) = text[i..].find(']') {
                let inner = text[i + 1..i + len].trim();
                let num = inner.rsplit(' ').next().unwrap_or("");
                let class = inner[..inner.len() - num.len()].trim();
                let is_tag = !num.is_empty() && num.bytes().all(|c| c.is_ascii_digit()) && matches!(class, "" | "APPLICATION" | "PRIVATE" | "UNIVERSAL" | "CONTEXT");
                if is_tag {
                    let after = text[i + len + 1..].trim_start();
                    if !(after.starts_with("IMPLICIT") || after.starts_with("EXPLICIT")) {
                        out.push_str(&text[copied..i + len + 1]);
                        out.push_str(" EXPLICIT");
                        copied = i + len + 1;
                        n += 1;
                    }
                    i += len + 1;
                    continue;
                }
            }
        }
        i += 1;
    }
    out.push_str(&text[copied..]);
    (out, n)
}

fn tag_texts(p: &TagPlan, spelled: bool) -> (Vec<String>, usize) {
    let mut set = p.set.clone();
    let mut n = 0;
    if spelled {
        for m in set.modules.iter_mut().filter(|m| m.tags == "EXPLICIT") {
            for a in m.assigns.iter_mut() {
                let (t, k) = spell_out_explicit(&a.text);
                a.text = t;
                n += k;
            }
        }
    }
    let texts: Vec<String> = p.order.iter().filter(|i| **i < set.modules.len()).map(|i| set.modules[*i].text(&set.modules)).collect();
    (if p.one_literal { vec![texts.join("\n")] } else { texts }, n)
}

pub struct C12TagKeywords;

impl Scenario for C12TagKeywords {
    fn property(&self) -> &'static str {
        "C12"
    }
    fn name(&self) -> &'static str {
        "tag-keywords"
    }
    fn runs(&self, tier: Tier) -> u64 {
        match tier {
            Tier::Quick => 1500,
            Tier::Thorough => 30000,
        }
    }
    fn plan(&self, seed: u64, _idx: u64, _tier: Tier, _env: &Env) -> Value {
        let root = Rng::new(seed);
        let mut w = root.fork("workload");
        let mut cfg = c12_gen_cfg();
        cfg.value_import_bias = w.chance(1, 4);
        let mut set = gen::generate(&mut w, &cfg);
        // at least one module says EXPLICIT TAGS — preferably one that others import from — and
        // at least one says something else
        let n = set.modules.len();
        let exporters: Vec<usize> = (0..n).filter(|i| set.modules.iter().any(|m| m.imports.iter().any(|im| im.from == set.modules[*i].name))).collect();
        let e = if !exporters.is_empty() && w.chance(4, 5) { *w.pick(&exporters) } else { w.below(n) };
        set.modules[e].tags = "EXPLICIT".into();
        let others: Vec<usize> = (0..n).filter(|i| *i != e).collect();
        if !others.iter().any(|i| set.modules[*i].tags != "EXPLICIT") {
            let o = *w.pick(&others);
            set.modules[o].tags = w.pick(&["IMPLICIT", "AUTOMATIC"]).to_string();
        }
        let order = w.permutation(n);
        let mut simcfg = SimCfg::simple(root.fork("schedule").next_u64());
        simcfg.entropy = root.fork("hashkeys").next_u64();
        let rcfg = if w.chance(1, 2) { RasnCfg::default_cfg() } else { RasnCfg::random(&mut w) };
        serde_json::to_value(&TagPlan { seed, set, cfg: rcfg, order, one_literal: w.chance(1, 3), sim: simcfg }).unwrap()
    }

    fn execute(&self, plan: &Value, _refs: &Value, root: &str, _env: &Env) -> Outcome {
        let p: TagPlan = serde_json::from_value(plan.clone()).expect("tag plan");
        let mut out = Outcome::default();
        std::env::remove_var("CARGO");
        std::env::set_var("CARGO_HOME", format!("{root}/cargo-home"));
        let (plain, _) = tag_texts(&p, false);
        let (spelled, n_spelled) = tag_texts(&p, true);
        out.count("tags_spelled_out", n_spelled as u64);
        if n_spelled == 0 {
            out.count("trivial.no_tag_without_keyword_in_an_explicit_module", 1);
            return out;
        }
        let be = BackendSel::Rasn(p.cfg.clone());
        let (a_src, b_src): (Vec<Src>, Vec<Src>) = (plain.into_iter().map(Src::Literal).collect(), spelled.into_iter().map(Src::Literal).collect());
        let be2 = be.clone();
        let body: sim::Body<(CompileOut, CompileOut)> = Box::new(move || {
            sim::op_begin("as-written");
            let a = sut::compile_to_string(&be2, &a_src, &BuilderPath::default());
            sim::op_end("as-written");
            sim::op_begin("keywords-spelled-out");
            let b = sut::compile_to_string(&be2, &b_src, &BuilderPath::default());
            sim::op_end("keywords-spelled-out");
            (a, b)
        });
        let (mut results, rep) = sim::run_sim(&p.sim, None, root, vec![body]);
        out.steps = rep.sched.steps + rep.events.len() as u64;
        let Some((a, b)) = results.pop().flatten() else {
            out.harness_error = Some("sim thread died".into());
            return out;
        };
        out.log_hash = fnv1a(format!("{}|{}", a.brief(), b.brief()).as_bytes());
        out.sigs.push(mix(p.seed, n_spelled as u64));
        out.sample = Some(json!({"modules": p.set.modules.iter().map(|m| format!("{} {} TAGS", m.name, m.tags)).collect::<Vec<_>>(), "tags_spelled_out": n_spelled, "as_written": a.brief(), "spelled_out": b.brief()}));
        if a.panic.is_some() || b.panic.is_some() {
            out.inconclusive.push(format!("panic: {} / {}", a.brief(), b.brief()));
            return out;
        }
        if !a.ok || !b.ok {
            out.count("not_judged.does_not_compile", 1);
            return out;
        }
        let (Ok(ba), Ok(bb)) = (proj::rust_modules(&a.generated), proj::rust_modules(&b.generated)) else {
            out.count("not_judged.output_does_not_parse", 1);
            return out;
        };
        out.count("compared_sets", 1);
        for blk in &ba {
            let Some(other) = bb.iter().find(|x| x.name == blk.name) else {
                out.violate("defaults-do-not-leak", format!("module block {} disappears when the EXPLICIT keywords of the modules that say EXPLICIT TAGS are spelled out", blk.name));
                continue;
            };
            out.count("compared_blocks", 1);
            if other.text != blk.text {
                let explicit: Vec<&String> = p.set.modules.iter().filter(|m| m.tags == "EXPLICIT").map(|m| &m.name).collect();
                out.violate(
                    "defaults-do-not-leak",
                    format!(
                        "the bindings of module block {} change when {n_spelled} tags of the EXPLICIT TAGS modules {:?} get their keyword written out (which is what they mean already): {}; modules {:?}, handed over in order {:?}{}",
                        blk.name,
                        explicit,
                        first_diff(&blk.text, &other.text),
                        p.set.modules.iter().map(|m| format!("{} {} TAGS", m.name, if m.tags.is_empty() { "(no)" } else { &m.tags })).collect::<Vec<_>>(),
                        p.order,
                        if p.one_literal { " as one literal" } else { "" }
                    ),
                );
            }
        }
        out
    }

    fn shrink(&self, plan: &Value) -> Vec<Value> {
        let p: TagPlan = serde_json::from_value(plan.clone()).unwrap();
        let mut out = vec![];
        for mi in 0..p.set.modules.len() {
            for ai in (0..p.set.modules[mi].assigns.len()).rev() {
                if let Some(s2) = p.set.without_assign(mi, ai) {
                    let mut q = p.clone();
                    q.set = s2;
                    out.push(serde_json::to_value(&q).unwrap());
                }
            }
        }
        out
    }
}
