//! C17 (slice) — syntax errors are reported at the malformed definition, consistently.
//!
//! Stored-byte corruption of a valid generated source: one byte replaced by a byte that
//! can start no ASN.1 token, a 512-byte sector zero-filled, or truncation inside an
//! assignment — at positions the generator's token map classifies as strict (inside an
//! identifier, keyword, number or punctuation; not inside a comment or string) — given as
//! a literal and through the simulated disk as a file path (where the seam corrupts the
//! byte in flight). Oracle: DESIGN §4 C17 clauses 1-5.

use crate::core::{Env, Outcome, Scenario, Tier};
use crate::gen::{self, ByteClass, GenCfg, ModuleSet};
use crate::rng::{fnv1a, mix, Rng};
use crate::shim::{self, Fault};
use crate::sim::{self, SimCfg};
use crate::sut::{self, BackendSel, CompileOut, RasnCfg, Renderings, Src};
use serde::{Deserialize, Serialize};
use serde_json::{json, Value};

#[derive(Clone, Debug, Serialize, Deserialize, PartialEq)]
pub enum Corruption {
    /// byte at `at` replaced by `byte` (a byte that starts no ASN.1 token)
    Replace { at: usize, byte: u8 },
    /// 512 bytes from `at` zero-filled
    SectorZero { at: usize },
    /// file ends at `at`
    Truncate { at: usize },
    /// file ends at `at`, a boundary between two units (after a complete assignment, after the
    /// line break or the comment that follows it): the error is expected AT the end of input
    TruncateAtBoundary { at: usize },
    /// one byte of the `*/` that closes a block comment overwritten by a blank: the comment
    /// never ends (`from` = offset of its `/*`). The first character that cannot continue valid
    /// notation is then the END OF INPUT, so only the lower bound (not before the comment) and the
    /// consistency clauses apply.
    BreakCommentEnd { at: usize, from: usize },
    /// TWO stored bytes damaged inside one assignment: the comma at `blank` (between two
    /// components: the next token is an identifier followed by a type or a tag) overwritten by a
    /// blank, and the byte at `at`, further on, replaced by `byte`. Without its comma the
    /// identifier that starts at `next` cannot continue any valid notation, so `next` is the upper
    /// bound of the reported position — a lexer that is lenient about commas must not report the
    /// later damage instead.
    BlankThenReplace { blank: usize, next: usize, at: usize, byte: u8, #[serde(default)] in_default: bool },
}

impl Corruption {
    fn at(&self) -> usize {
        match self {
            Corruption::Replace { at, .. } | Corruption::SectorZero { at } | Corruption::Truncate { at } | Corruption::TruncateAtBoundary { at } | Corruption::BreakCommentEnd { at, .. } => *at,
            // the FIRST position that cannot continue valid notation
            Corruption::BlankThenReplace { next, .. } => *next,
        }
    }
}

#[derive(Clone, Debug, Serialize, Deserialize, PartialEq)]
pub struct Case {
    pub c: Corruption,
    pub file: bool,
    pub ts: bool,
    /// well-formed sources handed to the compiler BEFORE the corrupted one: bit 0 a file, bit 1 a
    /// literal (the reported position and path must still be those of the corrupted source)
    #[serde(default)]
    pub pre: u8,
    /// earlier compilations on the SAME thread, before the judged one (most of them failing):
    /// (kind, parameter, repetitions) — see `history_source`
    #[serde(default)]
    pub hist: Vec<(u8, u32, u32)>,
    /// a valid hand-written module in FRONT of the corrupted text, in the same source (index
    /// into `preludes()`): notation the generator does not produce — whatever sub-lexer handles
    /// it, the positions reported for what follows must still be positions in this source
    #[serde(default)]
    pub prelude: Option<u32>,
}

/// single-module inputs of the C08 sample files (rejected-notation and boundary-literal inputs,
/// and the one-purpose modules of the second notation file); used only when they compile
pub fn preludes() -> Vec<&'static str> {
    let mut v: Vec<&'static str> = include_str!("../samples/unsupported.asn").split("\n-- @@ --\n").collect();
    v.extend(include_str!("../samples/literals.asn").split("\n-- @@ --\n"));
    v.extend(include_str!("../samples/notation2.asn").split("\n\n").filter(|m| m.contains("DEFINITIONS") && m.trim_end().ends_with("END")));
    v
}

/// Sources for the history of a thread: earlier operations whose outcome must not influence
/// where the judged compilation reports its error. kind 0: `param` nested SEQUENCE OF; 1: `param`
/// nested SEQUENCE { a .. } types; 2: `param` nested CHOICE; 3: the judged text cut after `param`
/// per mille of its bytes (a syntax error at end of input); 4: a block comment that never ends;
/// 5: a character string that never ends; 6: garbage after a complete module; 7: `param` open
/// parentheses in a constraint
pub fn history_source(kind: u8, param: u32, text: &str) -> String {
    let d = param as usize;
    match kind {
        0 => format!("Hist-A DEFINITIONS ::= BEGIN\nDeep ::= {}INTEGER\nEND\n", "SEQUENCE OF ".repeat(d)),
        1 => format!("Hist-B DEFINITIONS AUTOMATIC TAGS ::= BEGIN\nDeep ::= {}BOOLEAN{}\nEND\n", "SEQUENCE { a ".repeat(d), " }".repeat(d)),
        2 => format!("Hist-C DEFINITIONS AUTOMATIC TAGS ::= BEGIN\nDeep ::= {}NULL{}\nEND\n", "CHOICE { a ".repeat(d), " }".repeat(d)),
        3 => {
            let mut at = text.len() * (d.min(1000)) / 1000;
            while !text.is_char_boundary(at) {
                at -= 1;
            }
            text[..at].to_string()
        }
        4 => "Hist-E DEFINITIONS ::= BEGIN\nA ::= INTEGER /* never closed\nB ::= BOOLEAN\nEND\n".to_string(),
        5 => "Hist-F DEFINITIONS ::= BEGIN\nv UTF8String ::= \"never closed\nB ::= BOOLEAN\nEND\n".to_string(),
        6 => "Hist-G DEFINITIONS ::= BEGIN\nA ::= INTEGER\nEND\n$$$ ???\n".to_string(),
        _ => format!("Hist-H DEFINITIONS ::= BEGIN\nA ::= INTEGER {}1..5\nEND\n", "(".repeat(d)),
    }
}

#[derive(Clone, Debug, Serialize, Deserialize, PartialEq)]
pub struct Plan {
    pub seed: u64,
    pub set: ModuleSet,
    pub cases: Vec<Case>,
    pub entropy: u64,
    /// span of a second assignment to a name of the last module (see plan), if there is one
    #[serde(default)]
    pub dup_span: Option<(usize, usize)>,
}

/// the bytes no ASN.1 token can start with (C0 controls other than whitespace, and a few
/// printable characters that occur in no X.680 lexical item)
const BAD_BYTES: [u8; 9] = [0x00, 0x01, 0x07, 0x1b, b'`', b'~', b'\\', b'$', b'?'];

/// One unit of the source: a module header, an assignment, or an END keyword.
#[derive(Clone, Debug)]
pub struct Unit {
    pub kind: &'static str,
    pub name: String,
    /// from the end of the previous unit (leading blanks/comments belong to this unit)
    pub wide_start: usize,
    /// first byte of the unit's own first token
    pub start: usize,
    pub end: usize,
}

/// concatenate all modules into one source and list its units with absolute offsets
pub fn layout(set: &ModuleSet) -> (String, Vec<Unit>) {
    let mut text = String::new();
    let mut units = vec![];
    let mut prev_end = 0usize;
    for m in &set.modules {
        let r = m.render(&set.modules);
        let base = text.len();
        units.push(Unit { kind: "header", name: m.name.clone(), wide_start: prev_end, start: base + r.header.start, end: base + r.header.end });
        prev_end = base + r.header.end;
        for (a, sp) in m.assigns.iter().zip(r.assigns.iter()) {
            units.push(Unit { kind: "assignment", name: a.name.clone(), wide_start: prev_end, start: base + sp.start, end: base + sp.end });
            prev_end = base + sp.end;
        }
        units.push(Unit { kind: "end", name: m.name.clone(), wide_start: prev_end, start: base + r.end_kw.start, end: base + r.end_kw.end });
        prev_end = base + r.end_kw.end;
        text.push_str(&r.text);
        text.push('\n');
    }
    (text, units)
}

fn apply(c: &Corruption, text: &str) -> Vec<u8> {
    let mut b = text.as_bytes().to_vec();
    match c {
        Corruption::Replace { at, byte } => b[*at] = *byte,
        Corruption::BreakCommentEnd { at, .. } => b[*at] = b' ',
        Corruption::BlankThenReplace { blank, at, byte, .. } => {
            b[*blank] = b' ';
            b[*at] = *byte;
        }
        Corruption::SectorZero { at } => {
            let e = (*at + 512).min(b.len());
            for x in &mut b[*at..e] {
                *x = 0;
            }
        }
        Corruption::Truncate { at } | Corruption::TruncateAtBoundary { at } => b.truncate(*at),
    }
    b
}

fn seam_faults(c: &Corruption) -> Vec<Fault> {
    match c {
        Corruption::Replace { at, byte } => vec![Fault { cls: shim::C_READ, ord: 0, kind: shim::F_GARBLE, a: *at as u64, b: *byte as u64 }],
        Corruption::BreakCommentEnd { at, .. } => vec![Fault { cls: shim::C_READ, ord: 0, kind: shim::F_GARBLE, a: *at as u64, b: b' ' as u64 }],
        // (the blank is already in the stored file; the seam damages the second byte in flight)
        Corruption::BlankThenReplace { at, byte, .. } => vec![Fault { cls: shim::C_READ, ord: 0, kind: shim::F_GARBLE, a: *at as u64, b: *byte as u64 }],
        Corruption::SectorZero { at } => vec![Fault { cls: shim::C_READ, ord: 0, kind: shim::F_ZERO, a: *at as u64, b: 512 }],
        Corruption::Truncate { at } | Corruption::TruncateAtBoundary { at } if *at >= 1 => vec![
            Fault { cls: shim::C_READ, ord: 0, kind: shim::F_SHORT, a: *at as u64, b: 0 },
            Fault { cls: shim::C_READ, ord: 1, kind: shim::F_EOF, a: 0, b: 0 },
        ],
        Corruption::Truncate { .. } | Corruption::TruncateAtBoundary { .. } => vec![Fault { cls: shim::C_READ, ord: 0, kind: shim::F_EOF, a: 0, b: 0 }],
    }
}

fn parse_plan(v: &Value) -> Plan {
    serde_json::from_value(v.clone()).expect("c17 plan")
}

/// "line 12, column 3" / "source file <path>:12:3" -> (line, mentions path)
fn parse_display(d: &str) -> Option<(usize, Option<String>)> {
    if let Some(i) = d.find("source file ") {
        let rest = d[i + 12..].trim_end_matches('.');
        let mut parts = rest.rsplitn(3, ':');
        let _col = parts.next()?;
        let line = parts.next()?.parse().ok()?;
        let path = parts.next()?.to_string();
        return Some((line, Some(path)));
    }
    let i = d.find("line ")?;
    let rest = &d[i + 5..];
    let line: String = rest.chars().take_while(|c| c.is_ascii_digit()).collect();
    Some((line.parse().ok()?, None))
}

/// contextualize(): (header line, header path, flagged line if any)
fn parse_context(c: &str) -> Option<(usize, Option<String>, Option<usize>)> {
    let hs = c.find("╭─[")? + "╭─[".len();
    let he = c[hs..].find(']')? + hs;
    let header = &c[hs..he];
    let (hline, hpath) = if let Some(rest) = header.strip_prefix("Source file: ") {
        let mut parts = rest.rsplitn(3, ':');
        let _col = parts.next()?;
        let line = parts.next()?.parse().ok()?;
        (line, Some(parts.next()?.to_string()))
    } else {
        let rest = header.strip_prefix("line ")?;
        let line: String = rest.chars().take_while(|c| c.is_ascii_digit()).collect();
        (line.parse().ok()?, None)
    };
    let mut flagged = None;
    for l in c.lines() {
        if l.contains("FAILED AT THIS LINE") {
            let num: String = l.trim_start().chars().take_while(|c| c.is_ascii_digit()).collect();
            flagged = num.parse().ok();
        }
    }
    Some((hline, hpath, flagged))
}

pub struct C17Corrupt;

impl Scenario for C17Corrupt {
    fn property(&self) -> &'static str {
        "C17"
    }
    fn name(&self) -> &'static str {
        "corrupt"
    }
    fn runs(&self, tier: Tier) -> u64 {
        match tier {
            Tier::Quick => 2400,
            Tier::Thorough => 60000,
        }
    }

    fn plan(&self, seed: u64, idx: u64, tier: Tier, _env: &Env) -> Value {
        let root = Rng::new(seed);
        let mut w = root.fork("workload");
        let mut cfg = GenCfg::default_cfg();
        cfg.modules = (1, 3);
        // small inputs are swept exhaustively (every strict position), larger ones sampled
        let small = idx % 3 == 0;
        cfg.assigns = if small { (1, 4) } else { (1, 30) };
        cfg.max_depth = if small { 1 } else { 3 };
        let mut set = gen::generate(&mut w, &cfg);
        // one source in six holds a SECOND assignment to a reference name of its last module
        // (`Name ::= BOOLEAN`, somewhere behind the first). The compiler accepts that today (the
        // later one wins). X.680 does not, so that second assignment may count as the first
        // malformed one: damage behind it may be reported from there on, never in front of it
        let mut dup_at: Option<(usize, usize)> = None; // (module, index of the second assignment)
        {
            let mut fd = root.fork("duplicate");
            if fd.chance(1, 6) {
                let mi = set.modules.len() - 1;
                let m = &mut set.modules[mi];
                let types: Vec<usize> = m.assigns.iter().enumerate().filter(|(_, a)| a.kind == gen::AKind::Type).map(|(i, _)| i).collect();
                if !types.is_empty() {
                    let first = *fd.pick(&types);
                    let n = m.assigns[first].name.clone();
                    let at = first + 1 + fd.below(m.assigns.len() - first);
                    m.assigns.insert(at, gen::Assign { name: n.clone(), kind: gen::AKind::Type, text: format!("{n} ::= BOOLEAN"), refs: vec![], comment: String::new() });
                    dup_at = Some((mi, at));
                }
            }
        }
        let (text, units) = layout(&set);
        // span of the second assignment: units are header, assignments.., END per module
        let dup_span: Option<(usize, usize)> = dup_at.and_then(|(mi, ai)| {
            let mut k = 0;
            for (j, m) in set.modules.iter().enumerate() {
                if j == mi {
                    return units.get(k + 1 + ai).map(|u| (u.wide_start, u.end));
                }
                k += m.assigns.len() + 2;
            }
            None
        });
        let map = gen::token_map(&text);
        let strict: Vec<usize> = (0..text.len()).filter(|i| map[*i] == ByteClass::Token && text.is_char_boundary(*i) && text.as_bytes()[*i] < 0x80).collect();
        let mut f = root.fork("faults");
        let mut cases = vec![];
        let budget = match tier {
            Tier::Quick => 60,
            Tier::Thorough => 120,
        };
        if small && strict.len() <= 400 {
            // exhaustive over strict positions; the fault byte and delivery rotate
            for (k, at) in strict.iter().enumerate() {
                cases.push(Case { c: Corruption::Replace { at: *at, byte: BAD_BYTES[(k + idx as usize) % BAD_BYTES.len()] }, file: k % 3 == 0, ts: k % 7 == 0, pre: 0, hist: vec![], prelude: None });
            }
        } else {
            for _ in 0..budget {
                let at = *f.pick(&strict);
                cases.push(Case { c: Corruption::Replace { at, byte: *f.pick(&BAD_BYTES) }, file: f.chance(1, 3), ts: f.chance(1, 6), pre: 0, hist: vec![], prelude: None });
            }
        }
        // every unit gets at least one corruption at its first and last strict byte
        for u in &units {
            let inside: Vec<usize> = strict.iter().copied().filter(|p| *p >= u.start && *p < u.end).collect();
            if let (Some(a), Some(b)) = (inside.first(), inside.last()) {
                cases.push(Case { c: Corruption::Replace { at: *a, byte: *f.pick(&BAD_BYTES) }, file: f.chance(1, 2), ts: false, pre: 0, hist: vec![], prelude: None });
                cases.push(Case { c: Corruption::Replace { at: *b, byte: *f.pick(&BAD_BYTES) }, file: f.chance(1, 2), ts: false, pre: 0, hist: vec![], prelude: None });
            }
        }
        for _ in 0..4 {
            let at = *f.pick(&strict);
            cases.push(Case { c: Corruption::SectorZero { at }, file: f.chance(1, 2), ts: false, pre: 0, hist: vec![], prelude: None });
            // truncation inside an assignment
            let asg: Vec<&Unit> = units.iter().filter(|u| u.kind == "assignment" && u.end > u.start + 2).collect();
            if !asg.is_empty() {
                let u = f.pick(&asg);
                let mut at = u.start + 1 + f.below(u.end - u.start - 1);
                while !text.is_char_boundary(at) {
                    at -= 1;
                }
                cases.push(Case { c: Corruption::Truncate { at }, file: f.chance(1, 2), ts: false, pre: 0, hist: vec![], prelude: None });
            }
        }
        // two damaged bytes in one assignment: a comma between two components blanked, and a
        // byte further on replaced
        {
            let b = text.as_bytes();
            let mut cands: Vec<(usize, usize, usize)> = vec![]; // (comma, next token, end of unit)
            for u in units.iter().filter(|u| u.kind == "assignment") {
                for c in strict.iter().copied().filter(|c| *c >= u.start && *c < u.end && b[*c] == b',') {
                    let mut n1 = c + 1;
                    while n1 < u.end && b[n1].is_ascii_whitespace() {
                        n1 += 1;
                    }
                    if n1 >= u.end || !b[n1].is_ascii_lowercase() || map[n1] != ByteClass::Token {
                        continue;
                    }
                    let mut e = n1;
                    while e < u.end && (b[e].is_ascii_alphanumeric() || b[e] == b'-') {
                        e += 1;
                    }
                    let mut t = e;
                    while t < u.end && b[t].is_ascii_whitespace() {
                        t += 1;
                    }
                    if t > e && t < u.end && (b[t].is_ascii_uppercase() || b[t] == b'[') && map[t] == ByteClass::Token {
                        cands.push((c, n1, u.end));
                    }
                }
            }
            for _ in 0..6 {
                if cands.is_empty() {
                    break;
                }
                let (blank, next, end) = *f.pick(&cands);
                let later: Vec<usize> = strict.iter().copied().filter(|p| *p > next && *p < end).collect();
                if later.is_empty() {
                    continue;
                }
                let at = *f.pick(&later);
                // is the second damaged byte part of a DEFAULT value? (known finding, see execute)
                let in_default = text[next..at].rfind("DEFAULT").is_some_and(|d| {
                    let mut depth = 0i32;
                    let mut inside = true;
                    for ch in text[next + d + 7..at].bytes() {
                        match ch {
                            b'{' | b'(' => depth += 1,
                            b'}' | b')' => depth -= 1,
                            b',' if depth == 0 => inside = false,
                            _ => {}
                        }
                        if depth < 0 {
                            inside = false;
                        }
                    }
                    inside
                });
                cases.push(Case { c: Corruption::BlankThenReplace { blank, next, at, byte: *f.pick(&BAD_BYTES), in_default }, file: f.chance(1, 3), ts: f.chance(1, 6), pre: 0, hist: vec![], prelude: None });
            }
        }
        // block comments whose terminator is damaged
        {
            let b = text.as_bytes();
            let mut ends: Vec<(usize, usize)> = vec![]; // (offset of '*' in "*/", offset of the matching "/*")
            let mut i = 0;
            while i + 1 < b.len() {
                if b[i] == b'/' && b[i + 1] == b'*' {
                    if let Some(len) = text[i + 2..].find("*/") {
                        ends.push((i + 2 + len, i));
                        i += len + 4;
                        continue;
                    }
                }
                i += 1;
            }
            for _ in 0..2 {
                if ends.is_empty() {
                    break;
                }
                let (e, from) = *f.pick(&ends);
                cases.push(Case { c: Corruption::BreakCommentEnd { at: e + f.below(2), from }, file: f.chance(1, 2), ts: false, pre: 0, hist: vec![], prelude: None });
            }
        }
        // truncation inside module headers: right after an identifier of the header, the EXPORTS
        // or the IMPORTS lists, and at random strict positions of it
        for _ in 0..4 {
            let hdr: Vec<&Unit> = units.iter().filter(|u| u.kind == "header" && u.end > u.start + 4).collect();
            if hdr.is_empty() {
                break;
            }
            let u = f.pick(&hdr);
            let ends: Vec<usize> = (u.start + 1..u.end).filter(|i| {
                let b = text.as_bytes();
                (b[*i - 1].is_ascii_alphanumeric()) && !(b[*i].is_ascii_alphanumeric() || b[*i] == b'-')
            }).collect();
            let at = if !ends.is_empty() && f.chance(2, 3) { *f.pick(&ends) } else { u.start + 1 + f.below(u.end - u.start - 1) };
            if text.is_char_boundary(at) {
                cases.push(Case { c: Corruption::TruncateAtBoundary { at }, file: f.chance(1, 2), ts: false, pre: 0, hist: vec![], prelude: None });
            }
        }
        // truncation exactly at unit boundaries: after a complete assignment, after its line break,
        // in front of the next assignment's first token
        for _ in 0..6 {
            let asg: Vec<&Unit> = units.iter().filter(|u| u.kind == "assignment").collect();
            if asg.is_empty() {
                break;
            }
            let u = f.pick(&asg);
            let nl = if text[u.end..].starts_with("\r\n") { 2 } else { 1 };
            let at = match f.below(3) {
                0 => u.end,
                1 => (u.end + nl).min(text.len()),
                _ => u.start,
            };
            if text.is_char_boundary(at) {
                cases.push(Case { c: Corruption::TruncateAtBoundary { at }, file: f.chance(1, 2), ts: false, pre: 0, hist: vec![], prelude: None });
            }
        }
        // a third of the corrupted LITERAL sources come after one or two well-formed sources
        let mut fp = root.fork("pre-sources");
        for c in cases.iter_mut() {
            if !c.file && fp.chance(1, 3) {
                c.pre = 1 + fp.below(3) as u8;
            }
        }
        if let Some((ds, de)) = dup_span {
            // no damage inside the second assignment itself
            cases.retain(|c| !(c.c.at() >= ds && c.c.at() < de) && !matches!(c.c, Corruption::SectorZero { at } if at < de && at + 512 > ds) && !matches!(c.c, Corruption::BlankThenReplace { blank, .. } if blank >= ds && blank < de));
        }
        // one case in twenty-five runs after a HISTORY of other compilations on the same thread,
        // most of them failing ones (nesting beyond what a parser may be willing to follow, errors
        // at end of input, comments and strings that never end), a few of them many times over
        let mut fh = root.fork("history");
        for c in cases.iter_mut() {
            if fh.chance(1, 25) {
                for _ in 0..(1 + fh.below(2)) {
                    let kind = fh.below(8) as u8;
                    let param = match kind {
                        0..=2 => *fh.pick(&[3u32, 20, 60, 63, 64, 65, 66, 80, 100]),
                        3 => fh.below(1000) as u32,
                        7 => *fh.pick(&[1u32, 8, 40, 70]),
                        _ => 0,
                    };
                    let rep = *fh.pick(&[1u32, 1, 1, 2, 3, 9, 70]);
                    c.hist.push((kind, param, rep));
                }
            }
        }
        // one literal case in twenty follows a hand-written module of other notation in the same source
        let mut fpre = root.fork("prelude");
        let n_pre = preludes().len();
        for c in cases.iter_mut() {
            if !c.file && fpre.chance(1, 20) {
                c.prelude = Some(fpre.below(n_pre) as u32);
                c.pre = 0;
            }
        }
        serde_json::to_value(&Plan { seed, set, cases, entropy: root.fork("hashkeys").next_u64(), dup_span }).unwrap()
    }

    fn execute(&self, plan: &Value, _refs: &Value, root: &str, _env: &Env) -> Outcome {
        let p = parse_plan(plan);
        let mut out = Outcome::default();
        std::env::remove_var("CARGO");
        std::env::set_var("CARGO_HOME", format!("{root}/cargo-home"));
        let (text, units0) = layout(&p.set);
        let mut digest = String::new();
        let all_preludes = preludes();
        let mut prelude_ok: std::collections::BTreeMap<u32, bool> = Default::default();
        for (ci, case) in p.cases.iter().enumerate() {
            let pos0 = case.c.at();
            if pos0 > text.len() || (pos0 == text.len() && !matches!(case.c, Corruption::Truncate { .. } | Corruption::TruncateAtBoundary { .. })) {
                continue;
            }
            let corrupted = apply(&case.c, &text);
            let Ok(ctext0) = String::from_utf8(corrupted.clone()) else {
                out.count("skipped.not_utf8", 1);
                continue;
            };
            // a prelude module in front, if it compiles on its own (harness-side probe, same process)
            let mut shift = 0usize;
            let mut ctext = ctext0;
            if let (Some(k), false) = (case.prelude, case.file) {
                if let Some(pre) = all_preludes.get(k as usize) {
                    let ok = *prelude_ok.entry(k).or_insert_with(|| sut::compile_to_string(&BackendSel::Ts, &[Src::Literal(pre.to_string())], &Default::default()).ok);
                    if ok {
                        let head = format!("{}\n\n", pre.trim_end());
                        shift = head.len();
                        ctext = format!("{head}{ctext}");
                        out.count("delivery.after_a_hand_written_module_in_the_same_source", 1);
                    } else {
                        out.count("skipped.prelude_does_not_compile", 1);
                    }
                }
            }
            let pos = pos0 + shift;
            let units: Vec<Unit> = units0.iter().map(|u| Unit { kind: u.kind, name: u.name.clone(), wide_start: u.wide_start + shift, start: u.start + shift, end: u.end + shift }).collect();
            // file names are byte strings: one file case in three has a name with punctuation,
            // a non-ASCII character, or bytes that are NOT valid UTF-8 (a Latin-1 name) — the path is
            // then reported as `to_string_lossy` renders it
            let odd = ["", "", "", "", "", "", ",v2", "-\u{e9}t\u{e9}", "{xf3}", "m{xe4}{xfc}"][(mix(p.seed, 0x0dd0 + ci as u64) % 10) as usize];
            let path = format!("{root}/in{ci}{odd}.asn1");
            let path_real = sut::real_path(&path);
            let path_shown = path_real.to_string_lossy().to_string();
            // one file case in four: the size the file system reports for the file is 0 although all
            // of it can be read (a benign fault: st_size is a hint); the stored file then holds the
            // damage itself
            let size_lie = case.file && mix(p.seed, 0x512e + ci as u64) % 4 == 0;
            let srcs = if case.file && size_lie {
                std::fs::write(&path_real, ctext.as_bytes()).unwrap();
                vec![Src::Path(path.clone())]
            } else if case.file {
                // the stored file is intact; the seam corrupts the bytes in flight
                match &case.c {
                    Corruption::BlankThenReplace { blank, .. } => {
                        let mut stored = text.clone().into_bytes();
                        stored[*blank] = b' ';
                        std::fs::write(&path_real, &stored).unwrap();
                    }
                    _ => std::fs::write(&path_real, &text).unwrap(),
                }
                vec![Src::Path(path.clone())]
            } else {
                let mut v = vec![];
                if case.pre & 1 != 0 {
                    let pre_path = format!("{root}/pre{ci}.asn1");
                    std::fs::write(&pre_path, format!("Pre-File-{ci} DEFINITIONS AUTOMATIC TAGS ::= BEGIN\n  PreFileType{ci} ::= BOOLEAN\nEND\n")).unwrap();
                    v.push(Src::Path(pre_path));
                }
                if case.pre & 2 != 0 {
                    v.push(Src::Literal(format!("Pre-Lit-{ci} DEFINITIONS ::= BEGIN\n\n  PreLitType{ci} ::= INTEGER (0..7)\nEND\n")));
                }
                v.push(Src::Literal(ctext.clone()));
                v
            };
            let mut cfg = SimCfg::simple(p.seed ^ ci as u64);
            cfg.entropy = p.entropy.wrapping_add(ci as u64);
            if size_lie {
                cfg.faults = vec![Fault { cls: shim::C_STAT, ord: shim::ANY_ORD, kind: shim::F_SHORT, a: 0, b: 0 }];
            } else if case.file {
                cfg.faults = seam_faults(&case.c);
            }
            let be = if case.ts { BackendSel::Ts } else { BackendSel::Rasn(RasnCfg::default_cfg()) };
            let ctx_text = ctext.clone();
            let history: Vec<(String, u32)> = case.hist.iter().map(|(k, prm, rep)| (history_source(*k, *prm, &text), *rep)).collect();
            if !history.is_empty() {
                out.count("delivery.after_a_history_on_the_same_thread", 1);
                out.count("history_operations", history.iter().map(|h| h.1 as u64).sum());
            }
            let hist_be = be.clone();
            let body: sim::Body<(CompileOut, Option<Renderings>)> = Box::new(move || {
                for (src, rep) in &history {
                    for _ in 0..*rep {
                        sim::op_begin("history");
                        let _ = sut::compile_for_report(&hist_be, &[Src::Literal(src.clone())], src);
                        sim::op_end("history");
                    }
                }
                sim::op_begin("compile");
                let r = sut::compile_for_report(&be, &srcs, &ctx_text);
                sim::op_end("compile");
                r
            });
            let (mut results, rep) = sim::run_sim(&cfg, None, root, vec![body]);
            out.steps += rep.sched.steps + rep.events.len() as u64;
            let _ = std::fs::remove_file(&path_real);
            let _ = std::fs::remove_file(format!("{root}/pre{ci}.asn1"));
            if case.pre != 0 {
                out.count("delivery.after_wellformed_sources", 1);
            }
            if rep.unmodelled > 0 || rep.overflow {
                out.harness_error = Some(format!("shim: {} un-modelled calls, overflow={}", rep.unmodelled, rep.overflow));
            }
            let Some((res, rend)) = results.pop().flatten() else {
                out.harness_error = Some("sim thread died outside catch_unwind".into());
                continue;
            };
            out.count("corruptions", 1);
            out.count(&format!("corruption.{}", match case.c { Corruption::Replace { .. } => "replace", Corruption::SectorZero { .. } => "sector_zero", Corruption::Truncate { .. } => "truncate", Corruption::TruncateAtBoundary { .. } => "truncate_at_boundary", Corruption::BreakCommentEnd { .. } => "break_comment_end", Corruption::BlankThenReplace { .. } => "blank_comma_then_replace" }), 1);
            out.count(if case.file { "delivery.file_corrupted_by_seam" } else { "delivery.literal" }, 1);
            if size_lie {
                out.count("delivery.file_whose_reported_size_is_zero", 1);
                if rep.fired.iter().all(|n| *n == 0) {
                    out.count("skipped.size_fault_did_not_fire", 1);
                    continue;
                }
                // (the stored file holds exactly the judged text and nothing is damaged in flight, so
                // there is no read pattern to validate: how much of it the compiler chose to read is
                // its own business, and reading less than all of it is what this fault is there to find)
            } else if case.file {
                // the seam must have delivered what `ctext` models: one read of the whole (or truncated) file
                let reads: Vec<i64> = rep.events.iter().filter(|e| e.call == "read").map(|e| e.res).collect();
                let expect = match case.c {
                    Corruption::Truncate { at } | Corruption::TruncateAtBoundary { at } => at as i64,
                    _ => text.len() as i64,
                };
                if reads.first() != Some(&expect) {
                    out.count("skipped.seam_read_pattern_unexpected", 1);
                    continue;
                }
            }
            digest.push_str(&format!("{ci}:{};", res.brief().replace(root, "<ROOT>")));
            if let Some(pn) = &res.panic {
                out.inconclusive.push(format!("panic {pn} on corruption {:?}", case.c));
                continue;
            }
            let Some(r) = &res.report else {
                if res.err_kind.as_deref() == Some("lexer-eof") {
                    // a syntax failure without any position (NotEnoughData): the property demands a
                    // reported offset/line for every parsing failure; never seen on the unchanged
                    // tree in 380 000 corruptions per run
                    out.violate("syntax-error-has-position", format!("parsing failed without a position ({}) on corruption {:?} delivered as {}", res.err.clone().unwrap_or_default(), case.c, if case.file { "file" } else { "literal" }));
                    continue;
                }
                // Ok, or an Err of another kind (IO): not judged here
                out.count(if res.ok { "not_judged.result_ok" } else { "not_judged.other_error_kind" }, 1);
                continue;
            };
            let Some(rend) = rend else { continue };
            out.count("judged", 1);
            let unit = units.iter().find(|u| pos >= u.wide_start && pos < u.end).or_else(|| units.iter().rev().find(|u| u.wide_start <= pos));
            let Some(unit) = unit else { continue };
            let ctx = format!(
                "corruption {:?} in {} `{}` (bytes {}..{}, first token at {}), delivered as {}, reported offset={} line={} column={} context_start_offset={} context_start_line={}",
                case.c, unit.kind, unit.name, unit.wide_start, unit.end, unit.start, if case.file { "file" } else { "literal" }, r.offset, r.line, r.column, r.context_start_offset, r.context_start_line
            );
            // 1. offset within the input and on a character boundary
            if r.offset > ctext.len() || !ctext.is_char_boundary(r.offset) {
                out.violate("offset-in-bounds", format!("offset {} is outside the input ({} bytes) or not on a character boundary; {ctx}", r.offset, ctext.len()));
                continue;
            }
            // 2. line arithmetic
            let nl = |upto: usize| ctext.as_bytes()[..upto].iter().filter(|b| **b == b'\n').count();
            if r.line != 1 + nl(r.offset) {
                out.violate("line-arithmetic", format!("line {} but there are {} line breaks before offset {}; {ctx}", r.line, nl(r.offset), r.offset));
            }
            if r.context_start_offset > r.offset {
                out.violate("context-before-offset", format!("context starts after the error position; {ctx}"));
            } else if r.context_start_offset <= ctext.len() && r.context_start_line != 1 + nl(r.context_start_offset) {
                out.violate("line-arithmetic", format!("context_start_line {} but there are {} line breaks before context_start_offset {}; {ctx}", r.context_start_line, nl(r.context_start_offset), r.context_start_offset));
            }
            // (a second assignment to a name IN FRONT of the damage may itself count as the first
            // malformed unit: the lower bound is then its first token)
            let lower = match p.dup_span {
                Some((ds, de)) if de + shift <= pos => {
                    out.count("probe.damage_behind_a_second_assignment_to_one_name", 1);
                    units.iter().find(|u| u.wide_start == ds + shift).map_or(unit.start, |u| u.start.min(unit.start))
                }
                _ => unit.start,
            };
            // 3. not before the malformed unit's first token, not after the first bad byte.
            //    s_k is the first non-blank byte after the previous unit (a leading comment
            //    counts as the first token or not, whichever the code chose).
            //    A comment is not a token: the lower bound is the first byte of the unit's own
            //    first token (calibrated on the unchanged tree: the lexer skips leading comments
            //    before it records a position).
            if let Corruption::BreakCommentEnd { from, .. } = &case.c {
                // the comment never ends: anything from its opening to the end of input is a
                // defensible position, anything before it is not
                if r.offset < *from + shift {
                    out.violate("not-before-malformed-unit", format!("reported offset {} lies before the unterminated comment that starts at {}; {ctx}", r.offset, *from + shift));
                }
            } else if r.offset > pos && matches!(case.c, Corruption::BlankThenReplace { in_default: true, .. }) {
                // KNOWN FINDING (known_findings.txt, key lenient-comma-then-damaged-default): the lexer
                // treats the commas between components as optional, and damage inside a DEFAULT value
                // is reported where it is — so after a lost comma the report lies beyond the identifier
                // that could not continue valid notation
                out.violate("lenient-comma-then-damaged-default", format!("reported offset {} lies after offset {pos}, where a component starts without the comma in front of it; {ctx}", r.offset));
            } else if r.offset > pos {
                out.violate("not-after-first-bad-byte", format!("reported offset {} lies after the first corrupted byte {pos}; {ctx}", r.offset));
            } else if r.offset < lower && !matches!(case.c, Corruption::TruncateAtBoundary { .. }) {
                out.violate("not-before-malformed-unit", format!("reported offset {} lies before the first token ({lower}) of the first malformed unit ({}{}); {ctx}", r.offset, unit.kind, if lower != unit.start { ", or rather the second assignment to one name in front of it" } else { "" }));
            }
            // 4. the three renderings agree on the line
            match (parse_display(&rend.display), parse_context(&rend.contextualized)) {
                (Some((dl, dpath)), Some((hl, hpath, flagged))) => {
                    if dl != r.line || hl != r.line || flagged.is_some_and(|f| f != r.line) {
                        out.violate(
                            "renderings-agree",
                            format!("structured line {} / Display line {dl} / contextualize header line {hl} / contextualize flagged line {:?}; {ctx}", r.line, flagged),
                        );
                    }
                    if flagged.is_none() {
                        out.count("probe.no_line_flagged_by_contextualize", 1);
                        // contextualize leaves blank rows out; a reported line that holds anything
                        // else (notation after a closed `-- .. --` comment included) must be shown
                        // and marked
                        // (the excerpt starts at context_start_offset: only the part of the reported
                        // line from there on can be shown — nothing at all for an error at the very
                        // end of the input)
                        let line_start = ctext[..r.offset].rfind('\n').map_or(0, |i| i + 1);
                        let from = line_start.max(r.context_start_offset.min(ctext.len()));
                        let line_end = ctext[r.offset..].find('\n').map_or(ctext.len(), |i| r.offset + i);
                        // (and the excerpt may be no more than the first 300 bytes of the context)
                        let mut upto = line_end.min(r.context_start_offset.saturating_add(296)).min(ctext.len());
                        while !ctext.is_char_boundary(upto) {
                            upto -= 1;
                        }
                        let actual = if from < upto && ctext.is_char_boundary(from) { &ctext[from..upto] } else { "" };
                        if !actual.trim().is_empty() {
                            out.violate("renderings-agree", format!("contextualize marks no row although the reported line {} is not blank: `{}`; {ctx}", r.line, crate::core::truncate(actual.trim_end(), 120)));
                        }
                    }
                    // the row that carries the marker shows the text of that very line
                    if let Some(row) = rend.contextualized.lines().find(|l| l.contains("FAILED AT THIS LINE")) {
                        let shown = row.split_once("│  ").map(|(_, r)| r).unwrap_or("");
                        let shown = shown.split(" ◀").next().unwrap_or("").trim_end();
                        let actual = ctext.split('\n').nth(r.line.saturating_sub(1)).unwrap_or("").trim_end();
                        // (the excerpt may start or end in the middle of a line: a part of the line is fine)
                        if shown.is_empty() || !actual.contains(shown) {
                            out.violate("renderings-agree", format!("the row marked by contextualize shows `{}` but line {} of the input is `{}`; {ctx}", crate::core::truncate(shown, 120), r.line, crate::core::truncate(actual, 120)));
                        }
                    }
                    // 5. path reporting
                    if case.file {
                        let want = path_shown.clone();
                        if want != path {
                            out.count("probe.path_of_a_file_whose_name_is_not_utf8", 1);
                        }
                        if r.src_file.as_deref() != Some(want.as_str()) || dpath.as_deref() != Some(want.as_str()) || hpath.as_deref() != Some(want.as_str()) {
                            out.violate("path-reported", format!("source given by path {} but src_file={:?}, Display path={:?}, contextualize path={:?}; {ctx}", want.replace(root, "<ROOT>"), r.src_file.as_ref().map(|f| f.replace(root, "<ROOT>")), dpath.as_ref().map(|f| f.replace(root, "<ROOT>")), hpath.as_ref().map(|f| f.replace(root, "<ROOT>"))));
                        }
                    } else if r.src_file.is_some() || dpath.is_some() || hpath.is_some() {
                        out.violate("path-reported", format!("literal source but a path is reported (src_file={:?}); {ctx}", r.src_file.as_ref().map(|f| f.replace(root, "<ROOT>"))));
                    }
                }
                _ => out.violate("renderings-agree", format!("cannot find a line number in Display `{}` or contextualize output; {ctx}", rend.display)),
            }
            if r.offset >= ctext.len() {
                out.count("probe.error_reported_at_eof", 1);
            }
            out.sigs.push(mix(fnv1a(text.as_bytes()), fnv1a(format!("{:?}{}{}", case.c, case.file, case.ts).as_bytes())));
        }
        out.log_hash = fnv1a(format!("{digest}{:?}", out.violations).as_bytes());
        out.sample = Some(json!({"modules": p.set.modules.len(), "assignments": p.set.n_assigns(), "bytes": text.len(), "crlf": p.set.modules.iter().map(|m| m.crlf).collect::<Vec<_>>(), "corruptions": p.cases.len(), "first": p.cases.iter().take(4).map(|c| format!("{:?} file={}", c.c, c.file)).collect::<Vec<_>>() }));
        out
    }

    fn shrink(&self, plan: &Value) -> Vec<Value> {
        let p = parse_plan(plan);
        let mut out = vec![];
        if p.cases.len() > 1 {
            let h = p.cases.len() / 2;
            for part in [p.cases[..h].to_vec(), p.cases[h..].to_vec()] {
                let mut q = p.clone();
                q.cases = part;
                out.push(serde_json::to_value(&q).unwrap());
            }
            for i in 0..p.cases.len().min(80) {
                let mut q = p.clone();
                q.cases = vec![p.cases[i].clone()];
                out.push(serde_json::to_value(&q).unwrap());
            }
        }
        out
    }
}

/// debugging aid: print the corrupted text (numbered) and the renderings for the first case of a replay file
pub fn show(path: &str) {
    let doc: Value = serde_json::from_slice(&std::fs::read(path).unwrap()).unwrap();
    let p = parse_plan(&doc["plan"]);
    let (text, _units) = layout(&p.set);
    let case = &p.cases[0];
    let ctext = String::from_utf8(apply(&case.c, &text)).unwrap();
    for (i, l) in ctext.split('\n').enumerate() {
        println!("{:4} | {}", i + 1, l.replace('\r', "<CR>").replace('\0', "<0>"));
    }
    crate::sut::install_panic_hook();
    let (out, rend) = sut::compile_for_report(&BackendSel::Rasn(RasnCfg::default_cfg()), &[Src::Literal(ctext.clone())], &ctext);
    println!("{:?}", out.report);
    if let Some(r) = rend {
        println!("{}\n{}", r.display, r.contextualized);
    }
}

/// debugging aid: for run `idx`, print every two-byte corruption whose report lies after the blanked comma
pub fn show_double(idx: u64) {
    use crate::core::Scenario;
    let env = crate::core::Env::detect();
    let base_seed: u64 = std::env::var("VERIF_SEED").ok().and_then(|s| s.parse().ok()).unwrap_or(1);
    let seed = crate::core::run_seed(base_seed, &C17Corrupt, idx);
    let plan = C17Corrupt.plan(seed, idx, Tier::Quick, &env);
    let p = parse_plan(&plan);
    let (text, _units) = layout(&p.set);
    crate::sut::install_panic_hook();
    for case in &p.cases {
        if let Corruption::BlankThenReplace { blank, next, at, .. } = &case.c {
            let ctext = String::from_utf8(apply(&case.c, &text)).unwrap();
            let be = BackendSel::Rasn(RasnCfg::default_cfg());
            let (res, _) = sut::compile_for_report(&be, &[Src::Literal(ctext.clone())], &ctext);
            if let Some(r) = &res.report {
                if r.offset > *next {
                    let ls = ctext[..*blank].rfind('\n').map_or(0, |i| i + 1);
                    let le = ctext[*at..].find('\n').map_or(ctext.len(), |i| *at + i);
                    println!("idx={idx} blank={blank} next={next} at={at} reported={} reason={:?}\n{}\n----", r.offset, r.reason, ctext[ls..le].replace('\0', "<0>").replace('\u{7}', "<7>").replace('\u{1b}', "<ESC>"));
                }
            }
        }
    }
}
