//! C20 — compile() delivers exactly the compiled text, and nothing on failure.
//!
//! Scenario `lib`: the library API in-process under the simulated disk / stdout.
//! Each seed-generated workload is first run fault-free to record its I/O trace; then
//! EVERY single fault of every kind applicable at every call position of that trace is
//! injected, one per run (complete single-fault sweep = the fault_enumeration level),
//! followed by PRNG-sampled double and triple faults.

use crate::core::{Env, Outcome, Scenario, Tier};
use crate::gen::{self, GenCfg, ModuleSet};
use crate::rng::{fnv1a, mix, Rng};
use crate::shim::{self, Event, Fault};
use crate::sim::{self, SimCfg};
use crate::sut::{self, BackendSel, BuilderPath, CompileOut, OutSel, RasnCfg, Src};
use serde::{Deserialize, Serialize};
use serde_json::{json, Value};

#[derive(Clone, Debug, Serialize, Deserialize, PartialEq)]
pub enum Delivery {
    /// every module its own literal
    Literals,
    /// all modules concatenated into one literal
    OneLiteral,
    /// every module its own file (.asn / .asn1), handed over by path
    Files,
    /// all modules in one file
    OneFile,
    /// alternate literal / file
    Mixed,
}

#[derive(Clone, Debug, Serialize, Deserialize, PartialEq)]
pub enum OutKind {
    File,
    Dir,
    Stdout,
    NoOutput,
}

#[derive(Clone, Debug, Serialize, Deserialize, PartialEq)]
pub enum DestState {
    Absent,
    ExistingFile,
    MissingParent,
    ParentIsFile,
    /// directory destination that already holds a generated.<ext> with other content
    DirWithOld,
    EmptyDir,
    NotApplicable,
}

#[derive(Clone, Copy, Debug, Serialize, Deserialize, PartialEq)]
pub enum Malform {
    None,
    /// garbage bytes spliced into module `m` (does not lex)
    Syntax { module: usize },
    /// a custom import that is not a Rust path (generation fails; rasn backend only)
    BadCustomImport,
    /// one source path does not exist / is a directory / holds invalid UTF-8 (real file system
    /// states, nothing injected): reading it fails, so the compilation fails
    SourceMissing { module: usize },
    SourceIsDir { module: usize },
    SourceBadUtf8 { module: usize },
}

#[derive(Clone, Debug, Serialize, Deserialize, PartialEq)]
pub struct Plan {
    pub seed: u64,
    pub set: ModuleSet,
    pub order: Vec<usize>,
    pub malform: Malform,
    pub backend: BackendSel,
    pub delivery: Delivery,
    pub bp: BuilderPath,
    pub out: OutKind,
    pub dest: DestState,
    /// a pre-existing destination file is LONGER than the bindings that will replace it
    #[serde(default)]
    pub old_longer: bool,
    /// last component of a file destination: with the backend's extension, another one, or none
    #[serde(default)]
    pub dest_name: String,
    /// how the destination is named: "abs" | "rel" (relative to the working directory) |
    /// "symlink" (a symbolic link to the file) | "dir-slash" (directory with a trailing slash)
    #[serde(default)]
    pub dest_form: String,
    /// a directory destination comes into being only AFTER the builder is complete (output mode
    /// and sources set), right before `compile()`: what counts is the file system at delivery
    #[serde(default)]
    pub dest_late: bool,
    pub sim: SimCfg,
    pub schedule: Option<Vec<u8>>,
    /// "fault-free" | "sweep" | "multi"
    pub phase: String,
}

const OLD_CONTENT: &str = "// previous content of the destination — must survive a failed compilation\n";

pub struct Materialised {
    pub srcs: Vec<Src>,
    pub literal_srcs: Vec<Src>,
    pub texts: Vec<String>,
}

pub fn module_texts(p: &Plan) -> Vec<String> {
    let mut texts: Vec<String> = p.order.iter().map(|i| p.set.modules[*i].text(&p.set.modules)).collect();
    if let Malform::Syntax { module } = &p.malform {
        if let Some(pos) = p.order.iter().position(|i| i == module) {
            let t = &mut texts[pos];
            // splice garbage into the middle of the module body, on a char boundary
            let mut at = t.len() / 2;
            while !t.is_char_boundary(at) {
                at += 1;
            }
            t.insert_str(at, " ::= ?? `garbage` ");
        }
    }
    texts
}

fn backend_of(p: &Plan) -> BackendSel {
    match (&p.malform, &p.backend) {
        (Malform::BadCustomImport, BackendSel::Rasn(c)) => {
            let mut c = c.clone();
            c.custom_imports = vec!["not a (path".into()];
            BackendSel::Rasn(c)
        }
        (_, b) => b.clone(),
    }
}

/// write the source files (outside the shim's view) and build the source list
pub fn materialise(p: &Plan, root: &str) -> Materialised {
    let texts = module_texts(p);
    let mut srcs = vec![];
    let write = |name: &str, text: &str| -> String {
        let path = format!("{root}/src/{name}");
        std::fs::create_dir_all(format!("{root}/src")).unwrap();
        std::fs::write(&path, text).unwrap();
        path
    };
    match p.delivery {
        Delivery::Literals => srcs = texts.iter().map(|t| Src::Literal(t.clone())).collect(),
        Delivery::OneLiteral => srcs = vec![Src::Literal(texts.join("\n"))],
        Delivery::Files => {
            for (i, t) in texts.iter().enumerate() {
                let ext = if i % 2 == 0 { "asn" } else { "asn1" };
                srcs.push(Src::Path(write(&format!("m{i}.{ext}"), t)));
            }
        }
        Delivery::OneFile => srcs = vec![Src::Path(write("all.asn", &texts.join("\n")))],
        Delivery::Mixed => {
            for (i, t) in texts.iter().enumerate() {
                if i % 2 == 0 {
                    srcs.push(Src::Path(write(&format!("m{i}.asn"), t)));
                } else {
                    srcs.push(Src::Literal(t.clone()));
                }
            }
        }
    }
    // real file-system states of one source (applied after the files were written)
    let pos_of = |module: usize| p.order.iter().position(|i| *i == module);
    match p.malform {
        Malform::SourceMissing { module } => {
            if let Some(Src::Path(f)) = pos_of(module).and_then(|k| srcs.get(k)) {
                let _ = std::fs::remove_file(f);
            }
        }
        Malform::SourceIsDir { module } => {
            if let Some(Src::Path(f)) = pos_of(module).and_then(|k| srcs.get(k)) {
                let _ = std::fs::remove_file(f);
                let _ = std::fs::create_dir_all(f);
            }
        }
        Malform::SourceBadUtf8 { module } => {
            if let Some(Src::Path(f)) = pos_of(module).and_then(|k| srcs.get(k)) {
                let mut b = std::fs::read(f).unwrap_or_default();
                let at = b.len() / 2;
                b.insert(at, 0xff);
                b.insert(at, 0xc3);
                let _ = std::fs::write(f, b);
            }
        }
        _ => {}
    }
    let literal_srcs = match p.delivery {
        Delivery::OneLiteral | Delivery::OneFile => vec![Src::Literal(texts.join("\n"))],
        _ => texts.iter().map(|t| Src::Literal(t.clone())).collect(),
    };
    Materialised { srcs, literal_srcs, texts }
}

struct Dest {
    out: OutSel,
    /// file that must hold the bindings after a successful compile()
    final_path: Option<String>,
    /// pre-existing file whose content must survive a failed compile()
    old_path: Option<String>,
    old_content: Vec<u8>,
}

fn prepare_dest(p: &Plan, root: &str, ext: &str, new_len: usize) -> Dest {
    let d = format!("{root}/out");
    std::fs::create_dir_all(&d).unwrap();
    let mut old = OLD_CONTENT.as_bytes().to_vec();
    if p.old_longer {
        while old.len() < new_len + 700 {
            old.extend_from_slice(OLD_CONTENT.as_bytes());
        }
    }
    let mut dest = prepare_dest_inner(p, &d, ext, &old);
    dest.old_content = old;
    match (p.dest_form.as_str(), &p.out, &p.dest) {
        ("rel", OutKind::File, DestState::Absent | DestState::ExistingFile) | ("rel", OutKind::Dir, _) => {
            // named relative to the working directory (the child's own; nothing else runs in it)
            if let OutSel::File(abs) = &dest.out {
                if let Some(relp) = abs.strip_prefix(&format!("{d}/")) {
                    std::env::set_current_dir(&d).unwrap();
                    dest.out = OutSel::File(relp.to_string());
                }
            }
        }
        ("symlink", OutKind::File, DestState::Absent | DestState::ExistingFile) => {
            // the destination is a symbolic link to the real file: the bindings go to the target
            if let (OutSel::File(abs), Some(real)) = (&dest.out, dest.final_path.clone()) {
                let link = format!("{abs}.link");
                if std::os::unix::fs::symlink(&real, &link).is_ok() {
                    dest.out = OutSel::File(link);
                }
            }
        }
        ("dir-slash", OutKind::Dir, _) => {
            if let OutSel::File(abs) = &dest.out {
                dest.out = OutSel::File(format!("{abs}/"));
            }
        }
        _ => {}
    }
    dest
}

fn prepare_dest_inner(p: &Plan, d: &str, ext: &str, old_bytes: &[u8]) -> Dest {
    match (&p.out, &p.dest) {
        (OutKind::Stdout, _) => Dest { out: OutSel::Stdout, final_path: None, old_path: None, old_content: vec![] },
        (OutKind::NoOutput, _) => Dest { out: OutSel::NoOutput, final_path: None, old_path: None, old_content: vec![] },
        (OutKind::Dir, st) => {
            let dir = format!("{d}/bindings.d");
            std::fs::create_dir_all(&dir).unwrap();
            let f = format!("{dir}/generated{ext}");
            let old = if *st == DestState::DirWithOld {
                std::fs::write(&f, old_bytes).unwrap();
                Some(f.clone())
            } else {
                None
            };
            Dest { out: OutSel::File(dir), final_path: Some(f), old_path: old, old_content: vec![] }
        }
        (OutKind::File, DestState::ExistingFile) => {
            let f = if p.dest_name.is_empty() { format!("{d}/bindings{ext}") } else { format!("{d}/{}", p.dest_name) };
            std::fs::write(&f, old_bytes).unwrap();
            Dest { out: OutSel::File(f.clone()), final_path: Some(f.clone()), old_path: Some(f), old_content: vec![] }
        }
        (OutKind::File, DestState::MissingParent) => {
            let f = format!("{d}/no-such-dir/bindings{ext}");
            Dest { out: OutSel::File(f.clone()), final_path: Some(f), old_path: None, old_content: vec![] }
        }
        (OutKind::File, DestState::ParentIsFile) => {
            let parent = format!("{d}/plainfile");
            std::fs::write(&parent, old_bytes).unwrap();
            let f = format!("{parent}/bindings{ext}");
            Dest { out: OutSel::File(f.clone()), final_path: Some(f), old_path: Some(parent), old_content: vec![] }
        }
        (OutKind::File, _) => {
            let f = if p.dest_name.is_empty() { format!("{d}/bindings{ext}") } else { format!("{d}/{}", p.dest_name) };
            Dest { out: OutSel::File(f.clone()), final_path: Some(f), old_path: None, old_content: vec![] }
        }
    }
}

fn normalise(s: &str, root: &str) -> String {
    s.replace(root, "<ROOT>")
}

// ------------------------------------------------------------------ fault vocabulary

pub fn is_benign(f: &Fault) -> bool {
    match f.kind {
        // a transfer of zero bytes on a write is not a short write but a device that accepts
        // nothing: a hard fault
        shim::F_SHORT if f.a == 0 && (f.cls == shim::C_WRITE || f.cls == shim::C_WRITE_STDOUT) => false,
        shim::F_SHORT => true,
        shim::F_ERRNO => f.a as i32 == libc::EINTR,
        shim::F_PERM => true,
        _ => false,
    }
}

/// every fault applicable to one call of the recorded trace
pub(crate) fn faults_for(ev: &Event) -> Vec<Fault> {
    let e = |cls: u32, errno: i32| Fault::errno(cls, ev.ord, errno);
    let short = |cls: u32, n: u64| Fault { cls, ord: ev.ord, kind: shim::F_SHORT, a: n, b: 0 };
    match ev.call.as_str() {
        "open_r" => vec![
            e(shim::C_OPEN_R, libc::EINTR),
            e(shim::C_OPEN_R, libc::EIO),
            e(shim::C_OPEN_R, libc::EACCES),
            e(shim::C_OPEN_R, libc::ENOENT),
            e(shim::C_OPEN_R, libc::EMFILE),
            e(shim::C_OPEN_R, libc::EISDIR),
        ],
        "read" => {
            let mut v = vec![e(shim::C_READ, libc::EINTR), e(shim::C_READ, libc::EIO), e(shim::C_READ, libc::EISDIR)];
            if ev.res > 1 {
                v.push(short(shim::C_READ, 1));
                v.push(short(shim::C_READ, (ev.res as u64 / 2).max(1)));
            }
            v
        }
        // F_SHORT on a stat: the size reported for a regular file is 0 / 7 bytes although the whole
        // content can be read (procfs-like and FUSE files, a file that is still growing): st_size
        // is a hint, never a bound — a benign fault
        "stat" => vec![e(shim::C_STAT, libc::EIO), e(shim::C_STAT, libc::EACCES), short(shim::C_STAT, 0), short(shim::C_STAT, 7)],
        "open_w" => vec![
            e(shim::C_OPEN_W, libc::EINTR),
            e(shim::C_OPEN_W, libc::EACCES),
            e(shim::C_OPEN_W, libc::EROFS),
            e(shim::C_OPEN_W, libc::ENOSPC),
            e(shim::C_OPEN_W, libc::EDQUOT),
            e(shim::C_OPEN_W, libc::EIO),
            e(shim::C_OPEN_W, libc::EMFILE),
        ],
        "write" => {
            let mut v = vec![
                e(shim::C_WRITE, libc::EINTR),
                e(shim::C_WRITE, libc::ENOSPC),
                e(shim::C_WRITE, libc::EDQUOT),
                e(shim::C_WRITE, libc::EIO),
            ];
            if ev.req > 1 {
                v.push(short(shim::C_WRITE, 1));
                v.push(short(shim::C_WRITE, (ev.req as u64 / 2).max(1)));
            }
            // write() accepting nothing at all: write_all must turn it into an error (WriteZero)
            v.push(Fault { cls: shim::C_WRITE, ord: ev.ord, kind: shim::F_SHORT, a: 0, b: 0 });
            v
        }
        "write_stdout" => {
            let mut v = vec![
                e(shim::C_WRITE_STDOUT, libc::EINTR),
                e(shim::C_WRITE_STDOUT, libc::EPIPE),
                e(shim::C_WRITE_STDOUT, libc::ENOSPC),
                e(shim::C_WRITE_STDOUT, libc::EIO),
            ];
            if ev.req > 1 {
                v.push(short(shim::C_WRITE_STDOUT, 1));
                v.push(short(shim::C_WRITE_STDOUT, (ev.req as u64 / 2).max(1)));
            }
            v
        }
        "close" => vec![e(shim::C_CLOSE, libc::EIO)],
        _ => vec![],
    }
}

// ------------------------------------------------------------------ the scenario

pub struct C20Lib;

fn parse_plan(v: &Value) -> Plan {
    serde_json::from_value(v.clone()).expect("c20 plan")
}

impl Scenario for C20Lib {
    fn property(&self) -> &'static str {
        "C20"
    }
    fn name(&self) -> &'static str {
        "lib"
    }
    fn runs(&self, tier: Tier) -> u64 {
        match tier {
            Tier::Quick => 420,
            Tier::Thorough => 4000,
        }
    }
    fn needs_reference(&self) -> bool {
        true
    }
    fn crash_is_violation(&self) -> bool {
        true
    }

    fn plan(&self, seed: u64, _idx: u64, _tier: Tier, _env: &Env) -> Value {
        let root = Rng::new(seed);
        let mut w = root.fork("workload");
        let mut cfg = GenCfg::default_cfg();
        cfg.modules = (1, 3);
        cfg.assigns = (1, 8);
        let set = gen::generate(&mut w, &cfg);
        let order = w.permutation(set.modules.len());
        let backend = BackendSel::random(&mut w);
        let malform = match w.below(12) {
            0 | 1 => Malform::Syntax { module: w.below(set.modules.len()) },
            2 if matches!(backend, BackendSel::Rasn(_)) => Malform::BadCustomImport,
            10 => *w.pick(&[Malform::SourceMissing { module: 0 }, Malform::SourceIsDir { module: 0 }, Malform::SourceBadUtf8 { module: 0 }]),
            _ => Malform::None,
        };
        let malform = match malform {
            Malform::SourceMissing { .. } => Malform::SourceMissing { module: w.below(set.modules.len()) },
            Malform::SourceIsDir { .. } => Malform::SourceIsDir { module: w.below(set.modules.len()) },
            Malform::SourceBadUtf8 { .. } => Malform::SourceBadUtf8 { module: w.below(set.modules.len()) },
            m => m,
        };
        let source_state = matches!(malform, Malform::SourceMissing { .. } | Malform::SourceIsDir { .. } | Malform::SourceBadUtf8 { .. });
        let delivery = if source_state { Delivery::Files } else { match w.below(6) {
            0 => Delivery::Literals,
            1 => Delivery::OneLiteral,
            2 | 3 => Delivery::Files,
            4 => Delivery::OneFile,
            _ => Delivery::Mixed,
        } };
        let out = match w.below(8) {
            0 => OutKind::Stdout,
            1 => OutKind::NoOutput,
            2 | 3 => OutKind::Dir,
            _ => OutKind::File,
        };
        let dest = match out {
            OutKind::File => match w.below(6) {
                0 | 1 => DestState::Absent,
                2 | 3 => DestState::ExistingFile,
                4 => DestState::MissingParent,
                _ => DestState::ParentIsFile,
            },
            OutKind::Dir => {
                if w.chance(1, 2) {
                    DestState::DirWithOld
                } else {
                    DestState::EmptyDir
                }
            }
            _ => DestState::NotApplicable,
        };
        let bp = BuilderPath { output_first: w.chance(1, 2), batch_paths: w.chance(1, 2), swap_backend: w.chance(1, 5), swap_late: w.chance(1, 2), legacy_path: mix(seed, 0x1e9ac7) % 5 == 0, output_mid: mix(seed, 0x0d1d) % 4 == 0 };
        let mut simcfg = SimCfg::simple(root.fork("schedule").next_u64());
        simcfg.entropy = root.fork("hashkeys").next_u64();
        simcfg.stack_kb = *root.fork("layout").pick(&[2048usize, 8192]);
        simcfg.capture_stdout = out == OutKind::Stdout;
        let old_longer = w.chance(1, 2);
        let dest_name = w.pick(&["", "", "bindings", "out.d", "asn1-bindings.generated", "Makefile"]).to_string();
        let p = Plan { seed, set, order, malform, backend, delivery, bp, out, dest, old_longer, dest_name, dest_form: w.pick(&["abs", "abs", "abs", "rel", "symlink", "dir-slash"]).to_string(), dest_late: w.chance(1, 3), sim: simcfg, schedule: None, phase: "fault-free".into() };
        serde_json::to_value(&p).unwrap()
    }

    /// `compile_to_string()` on the same texts given as literals, in a pristine process.
    fn reference(&self, plan: &Value, _env: &Env) -> Value {
        let p = parse_plan(plan);
        let texts = module_texts(&p);
        let lits: Vec<Src> = match p.delivery {
            Delivery::OneLiteral | Delivery::OneFile => vec![Src::Literal(texts.join("\n"))],
            _ => texts.iter().map(|t| Src::Literal(t.clone())).collect(),
        };
        let o = sut::compile_to_string(&backend_of(&p), &lits, &BuilderPath::default());
        serde_json::to_value(&o).unwrap()
    }

    fn execute(&self, plan: &Value, refs: &Value, root: &str, _env: &Env) -> Outcome {
        let p = parse_plan(plan);
        let mut out = Outcome::default();
        let Ok(reference) = serde_json::from_value::<CompileOut>(refs.clone()) else {
            out.inconclusive.push(format!("reference compilation crashed: {refs}"));
            return out;
        };
        if reference.panic.is_some() {
            out.violate("O3-no-panic", format!("compile_to_string panicked in the reference run: {:?}", reference.panic));
            return out;
        }
        // sanitised environment: no rustfmt reachable (formatter scenarios are separate)
        std::env::remove_var("CARGO");
        std::env::set_var("CARGO_HOME", format!("{root}/cargo-home"));

        let backend = backend_of(&p);
        let mat = materialise(&p, root);
        let dest = prepare_dest(&p, root, backend.ext(), reference.generated.len());
        let srcs = mat.srcs.clone();
        let outsel = dest.out.clone();
        let bp = p.bp.clone();
        let be = backend.clone();
        // a directory destination that appears late: taken away now, put back by `between`
        let late_dir: Option<(String, Option<(String, Vec<u8>)>)> = match (&p.out, p.dest_late, &dest.out) {
            (OutKind::Dir, true, OutSel::File(dir)) => {
                let dir = dir.trim_end_matches('/').to_string();
                let dir_abs = if dir.starts_with('/') { dir.clone() } else { format!("{root}/out/{dir}") };
                let old = dest.old_path.as_ref().map(|f| (f.clone(), dest.old_content.clone()));
                let _ = std::fs::remove_dir_all(&dir_abs);
                out.count("probe.directory_destination_created_after_the_builder_was_complete", 1);
                Some((dir_abs, old))
            }
            _ => None,
        };
        let body: sim::Body<CompileOut> = Box::new(move || {
            sim::op_begin("compile");
            let r = sut::compile_between(&be, &srcs, &outsel, &bp, &|| {
                if let Some((dir, old)) = &late_dir {
                    // harness I/O: outside the seam (not a simulated call, no yield point)
                    let tid = crate::sched::current_tid();
                    shim::register_thread(-1);
                    std::fs::create_dir_all(dir).unwrap();
                    if let Some((f, bytes)) = old {
                        std::fs::write(f, bytes).unwrap();
                    }
                    shim::register_thread(tid);
                }
            });
            sim::op_end("compile");
            r
        });
        let (mut results, rep) = sim::run_sim(&p.sim, p.schedule.clone(), root, vec![body]);
        let res = results.pop().flatten();
        out.steps = rep.sched.steps + rep.events.len() as u64;
        out.schedule = rep.sched.schedule.clone();

        if rep.unmodelled > 0 || rep.overflow {
            out.harness_error = Some(format!("shim: {} un-modelled calls on paths under the run root, overflow={}", rep.unmodelled, rep.overflow));
        }
        let Some(res) = res else {
            out.harness_error = Some("sim thread died outside catch_unwind".into());
            return out;
        };

        // ---- facts about this run
        let fired: Vec<&Fault> = p.sim.faults.iter().zip(rep.fired.iter()).filter(|(_, n)| **n > 0).map(|(f, _)| f).collect();
        let io_events: Vec<&Event> = rep.events.iter().filter(|e| e.call != "note").collect();
        let mutating: Vec<&Event> = io_events.iter().copied().filter(|e| e.is_mutating()).collect();
        // a source that is missing, a directory or not UTF-8 is a hard read fault of the real file system
        let source_state = matches!(p.malform, Malform::SourceMissing { .. } | Malform::SourceIsDir { .. } | Malform::SourceBadUtf8 { .. });
        let hard_src = source_state || fired.iter().any(|f| !is_benign(f) && (f.cls == shim::C_OPEN_R || f.cls == shim::C_READ));
        let hard_open_w = fired.iter().any(|f| !is_benign(f) && f.cls == shim::C_OPEN_W);
        let hard_write = fired.iter().any(|f| !is_benign(f) && (f.cls == shim::C_WRITE || f.cls == shim::C_WRITE_STDOUT));
        let close_fault = fired.iter().any(|f| f.cls == shim::C_CLOSE);
        // a stat fault on the destination (is_dir) as opposed to one on a source file's fd
        let stat_dest_fault = rep.events.iter().any(|e| e.call == "stat" && e.fault == "errno" && !e.path.starts_with("src/") && !e.path.starts_with("cargo-home"));
        let real_dest_problem = matches!(p.dest, DestState::MissingParent | DestState::ParentIsFile);
        let delivered: Option<Vec<u8>> = match &p.out {
            OutKind::Stdout => Some(rep.stdout.clone()),
            OutKind::NoOutput => None,
            _ => dest.final_path.as_ref().and_then(|f| std::fs::read(f).ok()),
        };
        let old_now: Option<Vec<u8>> = dest.old_path.as_ref().and_then(|f| std::fs::read(f).ok());
        for f in &fired {
            out.count(&format!("fault_fired.{}", f.label()), 1);
        }
        for f in &p.sim.faults {
            out.count(&format!("fault_planned.{}", f.label()), 1);
        }
        out.count(&format!("out.{:?}", p.out), 1);
        if p.bp.legacy_path && matches!(p.out, OutKind::File | OutKind::Dir) {
            out.count("probe.destination_named_through_deprecated_set_output_path", 1);
        }
        out.count(&format!("dest.{:?}", p.dest), 1);
        out.count(&format!("delivery.{:?}", p.delivery), 1);
        out.count(&format!("backend.{}", backend.short()), 1);
        out.count(&format!("phase.{}", p.phase), 1);
        if p.malform != Malform::None {
            out.count("malformed_input", 1);
        }
        if hard_write && mutating.iter().any(|e| e.call == "open_w" && e.res >= 0) {
            out.count("probe.fault_landed_while_destination_open", 1);
        }

        let describe = |r: &CompileOut| normalise(&r.brief(), root);
        let ctx = format!(
            "backend={} out={:?} dest={:?} delivery={:?} malform={:?} faults=[{}] result={}",
            backend.short(),
            p.out,
            p.dest,
            p.delivery,
            p.malform,
            p.sim.faults.iter().map(|f| f.describe()).collect::<Vec<_>>().join(", "),
            describe(&res)
        );

        // ---- O3: never a panic
        if let Some(pn) = &res.panic {
            out.violate("O3-no-panic", format!("compile() panicked: {pn}; {ctx}"));
        }

        // ---- what must the result be?
        let stdout_flush_failed = rep.stdout_flush_err.is_some();
        if res.panic.is_none() {
            if !reference.ok {
                // compilation itself fails: Err, and nothing is written or overwritten (O2)
                if res.ok {
                    out.violate("O2-err-expected", format!("compile_to_string() is Err({:?}) but compile() returned Ok; {ctx}", reference.err));
                } else {
                    if !mutating.is_empty() {
                        out.violate(
                            "O2-nothing-on-failure",
                            format!("failed compilation issued mutating I/O: {}; {ctx}", mutating.iter().map(|e| format!("{}({})", e.call, e.path)).collect::<Vec<_>>().join(" ")),
                        );
                    }
                    if let (Some(_), Some(now)) = (&dest.old_path, &old_now) {
                        if now != &dest.old_content {
                            out.violate("O2-nothing-on-failure", format!("pre-existing destination changed by a failed compilation; {ctx}"));
                        }
                    }
                    if p.out == OutKind::Stdout && !rep.stdout.is_empty() {
                        out.violate("O2-nothing-on-failure", format!("failed compilation wrote {} bytes to stdout; {ctx}", rep.stdout.len()));
                    }
                    if !hard_src && res.err_kind != reference.err_kind {
                        out.violate("O2-same-error", format!("compile() failed with {:?}, compile_to_string() with {:?}; {ctx}", res.err_kind, reference.err_kind));
                    }
                }
            } else if hard_src {
                // O3: a hard fault on a source read
                if res.ok {
                    out.violate("O3-source-fault-is-err", format!("a hard fault on reading a source fired but compile() returned Ok; {ctx}"));
                } else {
                    if res.err_kind.as_deref() != Some("lexer-io") {
                        out.violate("O3-source-fault-is-err", format!("source read fault reported as {:?}, expected a lexer IO error; {ctx}", res.err_kind));
                    }
                    if !mutating.is_empty() {
                        out.violate("O2-nothing-on-failure", format!("mutating I/O after a source read error: {}; {ctx}", mutating.iter().map(|e| format!("{}({})", e.call, e.path)).collect::<Vec<_>>().join(" ")));
                    }
                    if let (Some(_), Some(now)) = (&dest.old_path, &old_now) {
                        if now != &dest.old_content {
                            out.violate("O2-nothing-on-failure", format!("pre-existing destination changed although reading a source failed; {ctx}"));
                        }
                    }
                }
            } else if hard_open_w || hard_write || real_dest_problem {
                // O3: unwritable destination
                if res.ok {
                    out.violate("O3-dest-fault-is-err", format!("the destination could not be written but compile() returned Ok; {ctx}"));
                } else if res.err_kind.as_deref() != Some("generator-io") {
                    out.violate("O3-dest-fault-is-err", format!("destination fault reported as {:?}, expected a generator IO error; {ctx}", res.err_kind));
                }
                if !hard_write {
                    // the open failed (or the path cannot exist): a pre-existing file keeps its content
                    if let (Some(_), Some(now)) = (&dest.old_path, &old_now) {
                        if now != &dest.old_content {
                            out.violate("O3-dest-unchanged-when-open-fails", format!("destination content changed although it could not be opened; {ctx}"));
                        }
                    }
                    if dest.old_path.is_some() && old_now.is_none() {
                        out.violate("O3-dest-unchanged-when-open-fails", format!("the pre-existing destination is gone although it could not even be opened; {ctx}"));
                    }
                }
                // whatever the fault: a failed delivery never removes or renames anything
                if let Some(e) = mutating.iter().find(|e| e.call == "unlink" || e.call == "rename") {
                    out.violate("O3-failed-delivery-removes-nothing", format!("{}({}) issued by a delivery that failed; {ctx}", e.call, e.path));
                }
            } else if (close_fault || stat_dest_fault) && !res.ok {
                // reporting a close() error, or failing because the destination could not be
                // examined, is legitimate; it must be a generator IO error
                if res.err_kind.as_deref() != Some("generator-io") {
                    out.violate("O3-dest-fault-is-err", format!("destination fault reported as {:?}; {ctx}", res.err_kind));
                }
            } else {
                // O1 / O4: success, exact delivery (benign faults are invisible)
                if !res.ok {
                    let why = if fired.is_empty() { "O1-delivery" } else { "O4-benign-invisible" };
                    out.violate(why, format!("compile_to_string() is Ok but compile() failed; {ctx}"));
                } else {
                    let why = if fired.is_empty() { "O1-delivery" } else { "O4-benign-invisible" };
                    match &p.out {
                        OutKind::NoOutput => {
                            if !mutating.is_empty() {
                                out.violate("O1-no-output-writes-nothing", format!("NoOutput mode issued mutating I/O; {ctx}"));
                            }
                        }
                        OutKind::Stdout => {
                            if !mutating.is_empty() {
                                out.violate("O1-stdout-writes-no-file", format!("Stdout mode issued file-mutating I/O; {ctx}"));
                            }
                            if stdout_flush_failed || delivered.as_deref() != Some(reference.generated.as_bytes()) {
                                out.violate(
                                    why,
                                    format!(
                                        "compile() returned Ok but standard output holds {} of {} bytes (flush at exit: {:?}); {ctx}",
                                        delivered.as_ref().map_or(0, |d| d.len()),
                                        reference.generated.len(),
                                        rep.stdout_flush_err
                                    ),
                                );
                            }
                        }
                        _ => {
                            let stat_alt = stat_dest_fault && p.out == OutKind::Dir;
                            match &delivered {
                                Some(d) if d == reference.generated.as_bytes() => {}
                                Some(d) => {
                                    let first = d.iter().zip(reference.generated.as_bytes()).position(|(a, b)| a != b).unwrap_or(d.len().min(reference.generated.len()));
                                    out.violate(why, format!("delivered file differs from compile_to_string() (lengths {} vs {}, first difference at byte {first}); {ctx}", d.len(), reference.generated.len()));
                                }
                                None if stat_alt => {}
                                None => out.violate(why, format!("compile() returned Ok but {} does not exist; {ctx}", normalise(dest.final_path.as_deref().unwrap_or("?"), root))),
                            }
                        }
                    }
                    let mut w1: Vec<String> = res.warnings.iter().map(|w| normalise(w, root)).collect();
                    w1.sort();
                    if w1 != reference.sorted_warnings() {
                        out.violate(why, format!("warnings of compile() differ from compile_to_string(): {:?} vs {:?}; {ctx}", w1, reference.sorted_warnings()));
                    }
                }
            }
        }

        // ---- signatures, hash, sample
        let io_sig = io_events.iter().fold(0xcbf29ce484222325u64, |h, e| mix(h, fnv1a(format!("{}:{}:{}", e.call, e.res.signum(), e.fault).as_bytes())));
        let plan_sig = fnv1a(
            format!("{}|{:?}|{:?}|{:?}|{:?}|{:?}|{}", backend.short(), p.out, p.dest, p.delivery, p.malform, p.bp, p.sim.faults.iter().map(|f| f.describe()).collect::<Vec<_>>().join(",")).as_bytes(),
        );
        out.sigs.push(mix(plan_sig, io_sig));
        let digest = format!("{}|{}|{:?}|{:?}", rep.log_text, describe(&res), delivered.as_ref().map(|d| fnv1a(d)), out.violations);
        out.log_hash = fnv1a(digest.as_bytes());
        if p.phase == "fault-free" {
            out.trace = Some(serde_json::to_value(&io_events).unwrap());
            out.sample = Some(json!({
                "workload": ctx, "modules": p.set.modules.len(), "assignments": p.set.n_assigns(),
                "io_trace": io_events.iter().map(|e| format!("{}#{} {} -> {}", e.call, e.ord, e.path, e.res)).collect::<Vec<_>>(),
            }));
        } else if !fired.is_empty() {
            out.sample = Some(json!({"workload": ctx, "fired": fired.iter().map(|f| f.describe()).collect::<Vec<_>>() }));
        }
        out
    }

    fn followups(&self, plan: &Value, outcome: &Outcome) -> Vec<Value> {
        let p = parse_plan(plan);
        if p.phase != "fault-free" {
            return vec![];
        }
        let Some(trace) = outcome.trace.as_ref().and_then(|t| serde_json::from_value::<Vec<Event>>(t.clone()).ok()) else {
            return vec![];
        };
        let mut pool: Vec<Fault> = vec![];
        for ev in &trace {
            pool.extend(faults_for(ev));
        }
        let mut plans = vec![];
        for f in &pool {
            let mut q = p.clone();
            q.phase = "sweep".into();
            q.sim.faults = vec![f.clone()];
            plans.push(serde_json::to_value(&q).unwrap());
        }
        // sampled double / triple faults
        let mut r = Rng::new(p.seed).fork("faults");
        if pool.len() >= 2 {
            for _ in 0..(pool.len() / 6).clamp(2, 12) {
                let k = 2 + r.below(2);
                let mut fs: Vec<Fault> = vec![];
                for _ in 0..k {
                    let f = r.pick(&pool).clone();
                    if !fs.iter().any(|g| g.cls == f.cls && g.ord == f.ord) {
                        fs.push(f);
                    }
                }
                let mut q = p.clone();
                q.phase = "multi".into();
                q.sim.faults = fs;
                plans.push(serde_json::to_value(&q).unwrap());
            }
        }
        plans
    }

    fn shrink(&self, plan: &Value) -> Vec<Value> {
        let p = parse_plan(plan);
        let mut out = vec![];
        let push = |q: Plan, out: &mut Vec<Value>| out.push(serde_json::to_value(&q).unwrap());
        // drop faults
        for i in 0..p.sim.faults.len() {
            let mut q = p.clone();
            q.sim.faults.remove(i);
            push(q, &mut out);
        }
        // drop whole modules (keep the malformed one addressed correctly)
        let source_state = matches!(p.malform, Malform::SourceMissing { .. } | Malform::SourceIsDir { .. } | Malform::SourceBadUtf8 { .. });
        if p.set.modules.len() > 1 && !source_state {
            for mi in 0..p.set.modules.len() {
                if let Malform::Syntax { module } = &p.malform {
                    if *module == mi {
                        continue;
                    }
                }
                let mut q = p.clone();
                q.set.modules.remove(mi);
                q.order = q.order.iter().filter(|i| **i != mi).map(|i| if *i > mi { *i - 1 } else { *i }).collect();
                if let Malform::Syntax { module } = &mut q.malform {
                    if *module > mi {
                        *module -= 1;
                    }
                }
                push(q, &mut out);
            }
        }
        // drop assignments
        for mi in 0..p.set.modules.len() {
            for ai in (0..p.set.modules[mi].assigns.len()).rev() {
                if let Some(s2) = p.set.without_assign(mi, ai) {
                    let mut q = p.clone();
                    q.set = s2;
                    push(q, &mut out);
                }
            }
        }
        // simpler knobs
        if p.bp != BuilderPath::default() {
            let mut q = p.clone();
            q.bp = BuilderPath::default();
            push(q, &mut out);
        }
        if let BackendSel::Rasn(c) = &p.backend {
            if *c != RasnCfg::default_cfg() && p.malform != Malform::BadCustomImport {
                let mut q = p.clone();
                q.backend = BackendSel::Rasn(RasnCfg::default_cfg());
                push(q, &mut out);
            }
        }
        if p.delivery != Delivery::Literals && p.sim.faults.is_empty() && !source_state {
            let mut q = p.clone();
            q.delivery = Delivery::Literals;
            push(q, &mut out);
        }
        out
    }

    fn finding_key(&self, plan: &Value, v: &crate::core::Violation) -> String {
        let p = parse_plan(plan);
        // F4: Stdout mode, Ok returned, bytes lost in the flush at exit
        if p.out == OutKind::Stdout && (v.oracle == "O1-delivery" || v.oracle == "O4-benign-invisible" || v.oracle == "O3-dest-fault-is-err") {
            return "stdout-not-flushed".into();
        }
        v.oracle.clone()
    }
}
