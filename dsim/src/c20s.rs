//! C20, scenario `seq` — HISTORIES of deliveries in one process.
//!
//! The `lib` scenario judges one `compile()` per process image. What it cannot see is anything a
//! compilation leaves behind for the next one: a destination resolved once and remembered, a
//! scratch file with a fixed name, an "already written" flag, an error state that outlives the
//! compilation that produced it. Here one process runs 2..4 `compile()` operations — on one sim
//! thread after the other, or on 2..3 sim threads interleaved at every intercepted system call —
//! each with its own sources (`op<i>/src`), its own destination (`op<i>/out`, a file, a directory,
//! standard output or none), its own backend and possibly a source that does not lex; the
//! fault-free run is followed by runs with one sampled fault at a call position of its recorded
//! I/O trace (the fault hits whichever operation makes that call).
//!
//! Oracles (per operation, with the faults attributed to it through the event log):
//!  * O1/O2/O3/O4 exactly as in `lib`;
//!  * O8-isolation: every mutating call an operation issues names a path under its own `op<i>/`;
//!  * O8-final-state: when all operations are done, every destination holds what ITS operation
//!    delivered (or its previous content where that operation failed) — a later or concurrent
//!    operation has not clobbered, moved or removed it — and no other file exists under any
//!    `op<i>/out`.

use crate::c20::{faults_for, is_benign};
use crate::core::{Env, Outcome, Scenario, Tier};
use crate::gen::{self, GenCfg, ModuleSet};
use crate::rng::{fnv1a, mix, Rng};
use crate::sched::Strategy;
use crate::shim::{self, Event, Fault};
use crate::sim::{self, SimCfg};
use crate::sut::{self, BackendSel, BuilderPath, CompileOut, OutSel, Src};
use serde::{Deserialize, Serialize};
use serde_json::{json, Value};
use std::collections::BTreeSet;

#[derive(Clone, Debug, Serialize, Deserialize, PartialEq)]
pub enum Out {
    FileAbsent,
    /// `longer`: the previous content is longer than the bindings that replace it
    FileExisting { longer: bool },
    DirEmpty,
    DirWithOld,
    Stdout,
    NoOutput,
}

#[derive(Clone, Debug, Serialize, Deserialize, PartialEq)]
pub struct Op {
    pub set: ModuleSet,
    /// garbage spliced into the first module: the compilation fails
    pub bad_syntax: bool,
    pub backend: BackendSel,
    pub files: bool,
    pub out: Out,
    pub bp: BuilderPath,
    pub thread: usize,
}

#[derive(Clone, Debug, Serialize, Deserialize, PartialEq)]
pub struct Plan {
    pub seed: u64,
    pub ops: Vec<Op>,
    pub threads: usize,
    pub sim: SimCfg,
    pub schedule: Option<Vec<u8>>,
    pub phase: String,
}

const OLD: &str = "// previous content of this destination - it belongs to ANOTHER compilation's history\n";

fn parse_plan(v: &Value) -> Plan {
    serde_json::from_value(v.clone()).expect("c20 seq plan")
}

fn texts_of(op: &Op) -> Vec<String> {
    let mut t = op.set.texts();
    if op.bad_syntax {
        let first = &mut t[0];
        let mut at = first.len() / 2;
        while !first.is_char_boundary(at) {
            at += 1;
        }
        first.insert_str(at, " ::= ?? `garbage` ");
    }
    t
}

struct Prepared {
    srcs: Vec<Src>,
    out: OutSel,
    final_path: Option<String>,
    old: Option<Vec<u8>>,
}

fn prepare(i: usize, op: &Op, root: &str, new_len: usize) -> Prepared {
    let src_dir = format!("{root}/op{i}/src");
    let out_dir = format!("{root}/op{i}/out");
    std::fs::create_dir_all(&src_dir).unwrap();
    std::fs::create_dir_all(&out_dir).unwrap();
    let texts = texts_of(op);
    let srcs = if op.files {
        texts
            .iter()
            .enumerate()
            .map(|(k, t)| {
                let p = format!("{src_dir}/m{k}.asn");
                std::fs::write(&p, t).unwrap();
                Src::Path(p)
            })
            .collect()
    } else {
        texts.iter().map(|t| Src::Literal(t.clone())).collect()
    };
    let ext = op.backend.ext();
    let old_bytes = |longer: bool| {
        let mut o = OLD.as_bytes().to_vec();
        if longer {
            while o.len() < new_len + 500 {
                o.extend_from_slice(OLD.as_bytes());
            }
        }
        o
    };
    let (out, final_path, old) = match &op.out {
        Out::FileAbsent => {
            let f = format!("{out_dir}/bindings{ext}");
            (OutSel::File(f.clone()), Some(f), None)
        }
        Out::FileExisting { longer } => {
            let f = format!("{out_dir}/bindings{ext}");
            let o = old_bytes(*longer);
            std::fs::write(&f, &o).unwrap();
            (OutSel::File(f.clone()), Some(f), Some(o))
        }
        Out::DirEmpty => (OutSel::File(out_dir.clone()), Some(format!("{out_dir}/generated{ext}")), None),
        Out::DirWithOld => {
            let f = format!("{out_dir}/generated{ext}");
            let o = old_bytes(true);
            std::fs::write(&f, &o).unwrap();
            (OutSel::File(out_dir.clone()), Some(f), Some(o))
        }
        Out::Stdout => (OutSel::Stdout, None, None),
        Out::NoOutput => (OutSel::NoOutput, None, None),
    };
    Prepared { srcs, out, final_path, old }
}

fn list_files(dir: &str, acc: &mut BTreeSet<String>) {
    if let Ok(rd) = std::fs::read_dir(dir) {
        for e in rd.flatten() {
            let p = e.path();
            let s = p.to_string_lossy().to_string();
            if p.is_dir() && !p.is_symlink() {
                list_files(&s, acc);
            } else {
                acc.insert(s);
            }
        }
    }
}

pub struct C20Seq;

impl Scenario for C20Seq {
    fn property(&self) -> &'static str {
        "C20"
    }
    fn name(&self) -> &'static str {
        "seq"
    }
    fn runs(&self, tier: Tier) -> u64 {
        match tier {
            Tier::Quick => 300,
            Tier::Thorough => 4000,
        }
    }
    fn needs_reference(&self) -> bool {
        true
    }
    fn crash_is_violation(&self) -> bool {
        true
    }

    fn plan(&self, seed: u64, _idx: u64, _tier: Tier, _env: &Env) -> Value {
        let root = Rng::new(seed);
        let mut w = root.fork("workload");
        let n_ops = 2 + w.below(3);
        let threads = *w.pick(&[1usize, 1, 2, 2, 3]);
        let threads = threads.min(n_ops);
        let mut ops = vec![];
        let stdout_op = if w.chance(1, 4) { Some(w.below(n_ops)) } else { None };
        for i in 0..n_ops {
            let mut g = root.fork(&format!("op{i}"));
            let mut cfg = GenCfg::default_cfg();
            cfg.modules = (1, 2);
            cfg.assigns = (1, 6);
            let set = gen::generate(&mut g, &cfg);
            let out = if stdout_op == Some(i) {
                Out::Stdout
            } else {
                match w.below(8) {
                    0 | 1 => Out::FileAbsent,
                    2 => Out::FileExisting { longer: false },
                    3 => Out::FileExisting { longer: true },
                    4 => Out::DirEmpty,
                    5 | 6 => Out::DirWithOld,
                    _ => Out::NoOutput,
                }
            };
            ops.push(Op {
                set,
                bad_syntax: w.chance(1, 5),
                backend: BackendSel::random(&mut w),
                files: w.chance(2, 3),
                out,
                bp: BuilderPath { output_first: w.chance(1, 2), batch_paths: w.chance(1, 2), swap_backend: w.chance(1, 6), swap_late: w.chance(1, 2), legacy_path: w.chance(1, 6), output_mid: w.chance(1, 4) },
                thread: if threads == 1 { 0 } else if i < threads { i } else { w.below(threads) },
            });
        }
        let mut s = root.fork("schedule");
        let mut simcfg = SimCfg::simple(s.next_u64());
        simcfg.entropy = root.fork("hashkeys").next_u64();
        simcfg.stack_kb = *root.fork("layout").pick(&[2048usize, 8192]);
        simcfg.capture_stdout = stdout_op.is_some();
        simcfg.strategy = if threads == 1 {
            Strategy::RunToCompletion
        } else {
            match s.below(5) {
                0 => Strategy::RunToCompletion,
                1 | 2 => Strategy::Random { percent: 30 },
                3 => Strategy::Random { percent: 100 },
                _ => Strategy::Pct { d: 1 + s.below(3) as u32, horizon: 200 },
            }
        };
        serde_json::to_value(&Plan { seed, ops, threads, sim: simcfg, schedule: None, phase: "fault-free".into() }).unwrap()
    }

    /// `compile_to_string()` per operation on the same texts as literals, in a pristine process.
    fn reference(&self, plan: &Value, _env: &Env) -> Value {
        let p = parse_plan(plan);
        let outs: Vec<CompileOut> = p
            .ops
            .iter()
            .map(|op| {
                let lits: Vec<Src> = texts_of(op).into_iter().map(Src::Literal).collect();
                sut::compile_to_string(&op.backend, &lits, &BuilderPath::default())
            })
            .collect();
        serde_json::to_value(&outs).unwrap()
    }

    fn execute(&self, plan: &Value, refs: &Value, root: &str, _env: &Env) -> Outcome {
        let p = parse_plan(plan);
        let mut out = Outcome::default();
        let Ok(reference) = serde_json::from_value::<Vec<CompileOut>>(refs.clone()) else {
            out.inconclusive.push(format!("reference compilation crashed: {refs}"));
            return out;
        };
        if reference.len() != p.ops.len() {
            out.harness_error = Some("reference list does not match the operations".into());
            return out;
        }
        if let Some(r) = reference.iter().find(|r| r.panic.is_some()) {
            out.violate("O3-no-panic", format!("compile_to_string panicked in the reference run: {:?}", r.panic));
            return out;
        }
        std::env::remove_var("CARGO");
        std::env::set_var("CARGO_HOME", format!("{root}/cargo-home"));

        let prepared: Vec<Prepared> = p.ops.iter().enumerate().map(|(i, op)| prepare(i, op, root, reference[i].generated.len())).collect();
        let mut bodies: Vec<sim::Body<Vec<(usize, CompileOut)>>> = vec![];
        for t in 0..p.threads {
            let mine: Vec<(usize, BackendSel, Vec<Src>, OutSel, BuilderPath)> = p
                .ops
                .iter()
                .enumerate()
                .filter(|(_, op)| op.thread == t)
                .map(|(i, op)| (i, op.backend.clone(), prepared[i].srcs.clone(), prepared[i].out.clone(), op.bp.clone()))
                .collect();
            bodies.push(Box::new(move || {
                let mut res = vec![];
                for (i, be, srcs, outsel, bp) in mine {
                    sim::op_begin(&format!("compile:{i}"));
                    let r = sut::compile(&be, &srcs, &outsel, &bp);
                    sim::op_end(&format!("compile:{i}"));
                    res.push((i, r));
                }
                res
            }));
        }
        let (results, rep) = sim::run_sim(&p.sim, p.schedule.clone(), root, bodies);
        out.steps = rep.sched.steps + rep.events.len() as u64;
        out.schedule = rep.sched.schedule.clone();
        if rep.unmodelled > 0 || rep.overflow {
            out.harness_error = Some(format!("shim: {} un-modelled calls on paths under the run root, overflow={}", rep.unmodelled, rep.overflow));
        }
        let mut res_of: Vec<Option<CompileOut>> = vec![None; p.ops.len()];
        for r in results {
            let Some(list) = r else {
                out.harness_error = Some("sim thread died outside catch_unwind".into());
                return out;
            };
            for (i, o) in list {
                res_of[i] = Some(o);
            }
        }

        // ---- attribute every intercepted call to the operation that made it
        let mut cur: std::collections::BTreeMap<i32, usize> = Default::default();
        let mut ev_of: Vec<Vec<&Event>> = vec![vec![]; p.ops.len()];
        let mut order_of_completion: Vec<usize> = vec![];
        let mut switches_inside = 0u64;
        let mut last_tid = -1;
        for e in &rep.events {
            if e.call == "note" {
                if let Some(i) = e.path.strip_prefix("op-begin compile:").and_then(|s| s.trim().parse::<usize>().ok()) {
                    cur.insert(e.tid, i);
                } else if let Some(i) = e.path.strip_prefix("op-end compile:").and_then(|s| s.trim().parse::<usize>().ok()) {
                    cur.remove(&e.tid);
                    order_of_completion.push(i);
                }
                continue;
            }
            if let Some(i) = cur.get(&e.tid) {
                ev_of[*i].push(e);
                if last_tid != -1 && last_tid != e.tid && cur.len() > 1 {
                    switches_inside += 1;
                }
                last_tid = e.tid;
            }
        }
        out.count("ops", p.ops.len() as u64);
        out.count(&format!("threads.{}", p.threads), 1);
        out.count(&format!("phase.{}", p.phase), 1);
        if switches_inside > 0 {
            out.count("probe.switch_between_the_calls_of_two_deliveries", 1);
        }
        let fault_of = |e: &Event| -> Option<&Fault> { p.sim.faults.iter().find(|f| shim::CLASS_NAMES[f.cls as usize] == e.call && (f.ord == e.ord || f.ord == shim::ANY_ORD)) };

        let stdout_ops: Vec<usize> = p.ops.iter().enumerate().filter(|(_, o)| o.out == Out::Stdout).map(|(i, _)| i).collect();
        let mut expected_files: BTreeSet<String> = BTreeSet::new();
        let mut plan_sig = 0xcbf29ce484222325u64;
        let mut digest = String::new();

        for (i, op) in p.ops.iter().enumerate() {
            let Some(res) = &res_of[i] else {
                out.harness_error = Some(format!("operation {i} returned no result"));
                continue;
            };
            let rf = &reference[i];
            let pr = &prepared[i];
            let evs = &ev_of[i];
            let own = format!("op{i}/");
            let mutating: Vec<&&Event> = evs.iter().filter(|e| e.is_mutating()).collect();
            let fired: Vec<(&Event, &Fault)> = evs.iter().filter(|e| e.fault != "none").filter_map(|e| fault_of(e).map(|f| (*e, f))).collect();
            for (_, f) in &fired {
                out.count(&format!("fault_fired.{}", f.label()), 1);
            }
            let hard_src = fired.iter().any(|(_, f)| !is_benign(f) && (f.cls == shim::C_OPEN_R || f.cls == shim::C_READ));
            let hard_open_w = fired.iter().any(|(_, f)| !is_benign(f) && f.cls == shim::C_OPEN_W);
            let hard_write = fired.iter().any(|(_, f)| !is_benign(f) && f.cls == shim::C_WRITE);
            let close_fault = fired.iter().any(|(_, f)| f.cls == shim::C_CLOSE);
            let stat_dest_fault = fired.iter().any(|(e, f)| f.cls == shim::C_STAT && f.kind == shim::F_ERRNO && !e.path.starts_with(&format!("op{i}/src/")));
            out.count(&format!("out.{}", match &op.out { Out::FileAbsent => "FileAbsent", Out::FileExisting { .. } => "FileExisting", Out::DirEmpty => "DirEmpty", Out::DirWithOld => "DirWithOld", Out::Stdout => "Stdout", Out::NoOutput => "NoOutput" }), 1);
            let delivered: Option<Vec<u8>> = match &op.out {
                Out::Stdout => Some(rep.stdout.clone()),
                Out::NoOutput => None,
                _ => pr.final_path.as_ref().and_then(|f| std::fs::read(f).ok()),
            };
            let ctx = format!(
                "operation {i} of {} (thread {} of {}, {}completed #{}), backend={} out={:?} sources={} bad_syntax={} faults=[{}] result={}",
                p.ops.len(),
                op.thread,
                p.threads,
                if p.threads > 1 { format!("{:?}, ", p.sim.strategy) } else { String::new() },
                order_of_completion.iter().position(|k| *k == i).map_or(0, |k| k + 1),
                op.backend.short(),
                op.out,
                if op.files { "files" } else { "literals" },
                op.bad_syntax,
                p.sim.faults.iter().map(|f| f.describe()).collect::<Vec<_>>().join(", "),
                res.brief().replace(root, "<ROOT>")
            );
            plan_sig = mix(plan_sig, fnv1a(format!("{}|{:?}|{}|{}|{}", op.backend.short(), op.out, op.files, op.bad_syntax, op.thread).as_bytes()));
            digest.push_str(&format!("{i}:{}|{:?};", res.brief().replace(root, "<ROOT>"), delivered.as_ref().map(|d| fnv1a(d))));

            if let Some(pn) = &res.panic {
                out.violate("O3-no-panic", format!("compile() panicked: {pn}; {ctx}"));
                continue;
            }
            // O8: an operation writes below its own directory only
            if let Some(e) = mutating.iter().find(|e| !e.path.starts_with(&own)) {
                out.violate("O8-isolation", format!("{}({}) issued by a compilation whose sources and destination are under {own}; {ctx}", e.call, e.path));
            }
            let old_intact = |out: &mut Outcome, why: &str| {
                if let (Some(f), Some(o)) = (&pr.final_path, &pr.old) {
                    match std::fs::read(f) {
                        Ok(now) if &now == o => {}
                        Ok(_) => out.violate(why, format!("pre-existing destination changed although this compilation delivered nothing; {ctx}")),
                        Err(_) => out.violate(why, format!("pre-existing destination is gone although this compilation delivered nothing; {ctx}")),
                    }
                }
            };
            let mut keeps_old = false;
            let mut wrote = false;
            if !rf.ok || hard_src {
                if res.ok {
                    out.violate(if rf.ok { "O3-source-fault-is-err" } else { "O2-err-expected" }, format!("compile() returned Ok; {ctx}"));
                } else {
                    if hard_src && rf.ok && res.err_kind.as_deref() != Some("lexer-io") {
                        out.violate("O3-source-fault-is-err", format!("source read fault reported as {:?}; {ctx}", res.err_kind));
                    }
                    if !hard_src && res.err_kind != rf.err_kind {
                        out.violate("O2-same-error", format!("compile() failed with {:?}, compile_to_string() with {:?}; {ctx}", res.err_kind, rf.err_kind));
                    }
                    if !mutating.is_empty() {
                        out.violate("O2-nothing-on-failure", format!("failed compilation issued mutating I/O: {}; {ctx}", mutating.iter().map(|e| format!("{}({})", e.call, e.path)).collect::<Vec<_>>().join(" ")));
                    }
                    old_intact(&mut out, "O2-nothing-on-failure");
                    if op.out == Out::Stdout && stdout_ops.len() == 1 && !rep.stdout.is_empty() {
                        out.violate("O2-nothing-on-failure", format!("failed compilation wrote {} bytes to stdout; {ctx}", rep.stdout.len()));
                    }
                }
                keeps_old = true;
            } else if hard_open_w || hard_write {
                if res.ok {
                    out.violate("O3-dest-fault-is-err", format!("the destination could not be written but compile() returned Ok; {ctx}"));
                } else if res.err_kind.as_deref() != Some("generator-io") {
                    out.violate("O3-dest-fault-is-err", format!("destination fault reported as {:?}; {ctx}", res.err_kind));
                }
                if !hard_write {
                    old_intact(&mut out, "O3-dest-unchanged-when-open-fails");
                    keeps_old = true;
                } else {
                    wrote = true; // content unconstrained, but the file may exist
                }
                if let Some(e) = mutating.iter().find(|e| e.call == "unlink" || e.call == "rename") {
                    out.violate("O3-failed-delivery-removes-nothing", format!("{}({}) issued by a delivery that failed; {ctx}", e.call, e.path));
                }
            } else if (close_fault || stat_dest_fault) && !res.ok {
                if res.err_kind.as_deref() != Some("generator-io") {
                    out.violate("O3-dest-fault-is-err", format!("destination fault reported as {:?}; {ctx}", res.err_kind));
                }
                wrote = true; // either outcome is legitimate here (see `lib`)
            } else {
                let why = if fired.is_empty() { "O1-delivery" } else { "O4-benign-invisible" };
                if !res.ok {
                    out.violate(why, format!("compile_to_string() is Ok but compile() failed; {ctx}"));
                    wrote = true;
                } else {
                    match &op.out {
                        Out::NoOutput => {
                            if !mutating.is_empty() {
                                out.violate("O1-no-output-writes-nothing", format!("NoOutput mode issued mutating I/O; {ctx}"));
                            }
                        }
                        Out::Stdout => {
                            if !mutating.is_empty() {
                                out.violate("O1-stdout-writes-no-file", format!("Stdout mode issued file-mutating I/O; {ctx}"));
                            }
                            if rep.stdout_flush_err.is_some() || delivered.as_deref() != Some(rf.generated.as_bytes()) {
                                out.violate(why, format!("standard output holds {} bytes, compile_to_string() returns {}; {ctx}", delivered.as_ref().map_or(0, |d| d.len()), rf.generated.len()));
                            }
                        }
                        _ => {
                            wrote = true;
                            let stat_alt = stat_dest_fault && matches!(op.out, Out::DirEmpty | Out::DirWithOld);
                            match &delivered {
                                Some(d) if d == rf.generated.as_bytes() => {}
                                Some(d) => {
                                    let first = d.iter().zip(rf.generated.as_bytes()).position(|(a, b)| a != b).unwrap_or(d.len().min(rf.generated.len()));
                                    let whose = reference.iter().position(|o| o.ok && o.generated.as_bytes() == d.as_slice());
                                    out.violate(
                                        "O8-final-state",
                                        format!(
                                            "when all operations are done the destination of this one holds {} bytes, its compile_to_string() returns {} (first difference at byte {first}){}; {ctx}",
                                            d.len(),
                                            rf.generated.len(),
                                            whose.map_or(String::new(), |k| format!(" — they are the bindings of operation {k}"))
                                        ),
                                    );
                                }
                                None if stat_alt => {}
                                None => out.violate("O8-final-state", format!("compile() returned Ok but {} does not exist when all operations are done; {ctx}", pr.final_path.as_deref().unwrap_or("?").replace(root, "<ROOT>"))),
                            }
                        }
                    }
                    let mut w1: Vec<String> = res.warnings.iter().map(|w| w.replace(root, "<ROOT>")).collect();
                    w1.sort();
                    if w1 != rf.sorted_warnings() {
                        out.violate(why, format!("warnings of compile() differ from compile_to_string(): {:?} vs {:?}; {ctx}", w1, rf.sorted_warnings()));
                    }
                }
            }
            if let Some(f) = &pr.final_path {
                let _ = keeps_old;
                if wrote || pr.old.is_some() {
                    expected_files.insert(f.clone());
                }
            }
        }

        // ---- O8: nothing else anywhere under the destinations
        let mut present = BTreeSet::new();
        for i in 0..p.ops.len() {
            list_files(&format!("{root}/op{i}/out"), &mut present);
        }
        for f in present.difference(&expected_files) {
            out.violate("O8-final-state", format!("stray file {} left behind by a history of {} compilations (faults=[{}])", f.replace(root, "<ROOT>"), p.ops.len(), p.sim.faults.iter().map(|f| f.describe()).collect::<Vec<_>>().join(", ")));
        }
        // sources are never modified
        for (i, op) in p.ops.iter().enumerate() {
            if op.files {
                for (k, t) in texts_of(op).iter().enumerate() {
                    if std::fs::read(format!("{root}/op{i}/src/m{k}.asn")).ok().as_deref() != Some(t.as_bytes()) {
                        out.violate("O8-final-state", format!("source file op{i}/src/m{k}.asn changed or vanished"));
                    }
                }
            }
        }

        let io_events: Vec<&Event> = rep.events.iter().filter(|e| e.call != "note").collect();
        let io_sig = io_events.iter().fold(0xcbf29ce484222325u64, |h, e| mix(h, fnv1a(format!("{}:{}:{}:{}", e.tid, e.call, e.res.signum(), e.fault).as_bytes())));
        plan_sig = mix(plan_sig, fnv1a(p.sim.faults.iter().map(|f| f.describe()).collect::<Vec<_>>().join(",").as_bytes()));
        out.sigs.push(mix(plan_sig, io_sig));
        out.log_hash = fnv1a(format!("{}|{}|{:?}", rep.log_text, digest, out.violations).as_bytes());
        if p.phase == "fault-free" {
            out.trace = Some(serde_json::to_value(&io_events).unwrap());
            out.sample = Some(json!({
                "ops": p.ops.iter().map(|o| format!("t{} {} {:?} {}", o.thread, o.backend.short(), o.out, if o.bad_syntax { "does-not-lex" } else { "ok" })).collect::<Vec<_>>(),
                "calls": io_events.len(), "strategy": format!("{:?}", p.sim.strategy),
            }));
        }
        out
    }

    /// one sampled fault at up to ten call positions of the recorded trace; the schedule of the
    /// fault-free run is replayed (it falls back to "stay" where the faulted run is shorter)
    fn followups(&self, plan: &Value, outcome: &Outcome) -> Vec<Value> {
        let p = parse_plan(plan);
        if p.phase != "fault-free" {
            return vec![];
        }
        let Some(trace) = outcome.trace.as_ref().and_then(|t| serde_json::from_value::<Vec<Event>>(t.clone()).ok()) else {
            return vec![];
        };
        let mut pool: Vec<Fault> = vec![];
        for ev in &trace {
            if ev.call == "write_stdout" || ev.path.starts_with("cargo-home") {
                continue;
            }
            pool.extend(faults_for(ev));
        }
        let mut r = Rng::new(p.seed).fork("faults");
        let mut plans = vec![];
        for _ in 0..pool.len().min(10) {
            let f = r.pick(&pool).clone();
            let mut q = p.clone();
            q.phase = "fault".into();
            q.sim.faults = vec![f];
            q.schedule = Some(outcome.schedule.clone());
            plans.push(serde_json::to_value(&q).unwrap());
        }
        plans
    }

    fn shrink(&self, plan: &Value) -> Vec<Value> {
        let p = parse_plan(plan);
        let mut out = vec![];
        let push = |q: Plan, out: &mut Vec<Value>| out.push(serde_json::to_value(&q).unwrap());
        // drop an operation (faults are positional: only in fault-free plans)
        if p.ops.len() > 1 && p.sim.faults.is_empty() {
            for i in 0..p.ops.len() {
                let mut q = p.clone();
                q.ops.remove(i);
                q.schedule = None;
                push(q, &mut out);
            }
        }
        for i in 0..p.sim.faults.len() {
            let mut q = p.clone();
            q.sim.faults.remove(i);
            push(q, &mut out);
        }
        if p.threads > 1 && p.sim.faults.is_empty() {
            let mut q = p.clone();
            q.threads = 1;
            for o in &mut q.ops {
                o.thread = 0;
            }
            q.sim.strategy = Strategy::RunToCompletion;
            q.schedule = None;
            push(q, &mut out);
        }
        if p.sim.faults.is_empty() {
            for oi in 0..p.ops.len() {
                for mi in 0..p.ops[oi].set.modules.len() {
                    for ai in (0..p.ops[oi].set.modules[mi].assigns.len()).rev() {
                        if let Some(s2) = p.ops[oi].set.without_assign(mi, ai) {
                            let mut q = p.clone();
                            q.ops[oi].set = s2;
                            q.schedule = None;
                            push(q, &mut out);
                        }
                    }
                }
                if p.ops[oi].bp != BuilderPath::default() {
                    let mut q = p.clone();
                    q.ops[oi].bp = BuilderPath::default();
                    push(q, &mut out);
                }
            }
        }
        out
    }
}
