//! C20, continued: the formatter subprocess (`fmt`) and the real command-line binary (`cli`).

use crate::c20::{is_benign, OutKind};
use crate::core::{Env, Outcome, Scenario, Tier};
use crate::gen::{self, GenCfg, ModuleSet};
use crate::rng::{fnv1a, mix, Rng};
use crate::shim::{self, Event, Fault};
use crate::sim::{self, SimCfg};
use crate::sut::{self, BackendSel, BuilderPath, CompileOut, OutSel, RasnCfg, Src};
use serde::{Deserialize, Serialize};
use serde_json::{json, Value};
use std::io::Write;
use std::process::{Command, Stdio};

// =====================================================================  fmt

#[derive(Clone, Debug, Serialize, Deserialize, PartialEq)]
pub enum Install {
    /// $CARGO_HOME/bin/rustfmt
    CargoHome,
    /// next to $CARGO
    CargoSibling,
    Absent,
    NotExecutable,
    IsDirectory,
}

#[derive(Clone, Debug, Serialize, Deserialize, PartialEq)]
pub enum FmtInput {
    Gen(ModuleSet),
    Corpus(String),
}

#[derive(Clone, Debug, Serialize, Deserialize, PartialEq)]
pub struct FmtPlan {
    pub seed: u64,
    pub input: FmtInput,
    pub cfg: RasnCfg,
    pub mode: String,
    pub install: Install,
    pub out: OutKind,
    pub sim: SimCfg,
}

fn fmt_srcs(i: &FmtInput) -> Vec<Src> {
    match i {
        FmtInput::Gen(s) => s.texts().into_iter().map(Src::Literal).collect(),
        FmtInput::Corpus(p) => vec![Src::Literal(std::fs::read_to_string(p).unwrap_or_default())],
    }
}

/// what the stand-in emits for `raw` under `mode` (harness-side run of the stub itself)
fn stub_emits(env: &Env, mode: &str, raw: &str) -> (Vec<u8>, Option<i32>) {
    let mut child = Command::new(&env.fake_rustfmt)
        .env("FAKE_RUSTFMT_MODE", mode)
        .env_remove("LD_PRELOAD")
        .stdin(Stdio::piped())
        .stdout(Stdio::piped())
        .spawn()
        .expect("spawn fake-rustfmt");
    let mut stdin = child.stdin.take().unwrap();
    let data = raw.as_bytes().to_vec();
    let t = std::thread::spawn(move || {
        let _ = stdin.write_all(&data);
    });
    let out = child.wait_with_output().expect("wait fake-rustfmt");
    let _ = t.join();
    (out.stdout, out.status.code())
}

pub struct C20Fmt {
    /// false: C20 (delivery under a formatter). true: the same machinery serving C10 — a formatter
    /// that FAILS VISIBLY (killed by a signal in the middle of its output, exit status 1 / 2 / 3,
    /// output that is not UTF-8) must not cost a single definition: the bindings are the
    /// unformatted ones or the completely formatted ones, never a part of them
    pub c10: bool,
}

impl Scenario for C20Fmt {
    fn property(&self) -> &'static str {
        if self.c10 {
            "C10"
        } else {
            "C20"
        }
    }
    fn name(&self) -> &'static str {
        if self.c10 {
            "formatter-faults"
        } else {
            "fmt"
        }
    }
    fn runs(&self, tier: Tier) -> u64 {
        match (tier, self.c10) {
            (Tier::Quick, false) => 700,
            (Tier::Thorough, false) => 8000,
            (Tier::Quick, true) => 500,
            (Tier::Thorough, true) => 6000,
        }
    }
    fn needs_reference(&self) -> bool {
        true
    }
    fn crash_is_violation(&self) -> bool {
        true
    }
    fn has_subprocess(&self) -> bool {
        true
    }
    fn cpu_budget_secs(&self) -> u64 {
        6
    }

    fn plan(&self, seed: u64, idx: u64, _tier: Tier, env: &Env) -> Value {
        let root = Rng::new(seed);
        let mut w = root.fork("workload");
        let input = if !env.corpus.is_empty() && idx % 5 == 0 {
            // real-world files give outputs well above the 64 KiB pipe buffer
            FmtInput::Corpus(env.corpus[(idx as usize / 5 * 7) % env.corpus.len()].clone())
        } else {
            let mut cfg = GenCfg::default_cfg();
            cfg.modules = (1, 4);
            cfg.assigns = if w.chance(1, 3) { (25, 40) } else { (1, 10) };
            FmtInput::Gen(gen::generate(&mut w, &cfg))
        };
        let mut f = root.fork("faults");
        let mode = match f.below(12) {
            0..=3 => "ok".to_string(),
            4 => "slurp".to_string(),
            5 => "exit1".to_string(),
            6 => "exit2".to_string(),
            7 => "exit3".to_string(),
            8 => format!("die:{}", f.below(200_000)),
            9 => "badutf8".to_string(),
            10 if !self.c10 => "noread".to_string(),
            10 => format!("die:{}", f.below(4000)),
            _ => format!("die:{}", f.below(64)),
        };
        // (C10: a formatter that exits 0 without having read anything LIES about its success;
        // no caller can see through that, so it is not a fault this property is judged under)
        let mode = if self.c10 && f.chance(1, 2) {
            let span = if f.chance(1, 2) { 3000 } else { 60_000 };
            format!("die:{}", 1 + f.below(span))
        } else {
            mode
        };
        let install = match f.below(10) {
            0..=4 => Install::CargoHome,
            5 | 6 => Install::CargoSibling,
            7 => Install::Absent,
            8 => Install::NotExecutable,
            _ => Install::IsDirectory,
        };
        let out = f.pick(&[OutKind::File, OutKind::File, OutKind::Stdout, OutKind::Dir]).clone();
        let mut simcfg = SimCfg::simple(root.fork("schedule").next_u64());
        simcfg.capture_stdout = out == OutKind::Stdout;
        let cfg = if w.chance(1, 2) { RasnCfg::default_cfg() } else { RasnCfg::random(&mut w) };
        serde_json::to_value(&FmtPlan { seed, input, cfg, mode, install, out, sim: simcfg }).unwrap()
    }

    /// raw = compile_to_string() with no formatter reachable, pristine process
    fn reference(&self, plan: &Value, _env: &Env) -> Value {
        let p: FmtPlan = serde_json::from_value(plan.clone()).expect("fmt plan");
        std::env::remove_var("CARGO");
        std::env::set_var("CARGO_HOME", "/nonexistent-dsim-cargo-home");
        let o = sut::compile_to_string(&BackendSel::Rasn(p.cfg.clone()), &fmt_srcs(&p.input), &BuilderPath::default());
        serde_json::to_value(&o).unwrap()
    }

    fn execute(&self, plan: &Value, refs: &Value, root: &str, env: &Env) -> Outcome {
        let p: FmtPlan = serde_json::from_value(plan.clone()).expect("fmt plan");
        let mut out = Outcome::default();
        let Ok(raw) = serde_json::from_value::<CompileOut>(refs.clone()) else {
            out.inconclusive.push(format!("reference crashed: {refs}"));
            return out;
        };
        if !raw.ok {
            out.count("input_does_not_compile", 1);
            return out;
        }
        // install the stand-in where the compiler looks for rustfmt
        std::env::remove_var("CARGO");
        std::env::set_var("CARGO_HOME", format!("{root}/cargo-home"));
        std::env::set_var("FAKE_RUSTFMT_MODE", &p.mode);
        let place = |path: &str, exec: bool| {
            std::fs::create_dir_all(std::path::Path::new(path).parent().unwrap()).unwrap();
            std::fs::copy(&env.fake_rustfmt, path).expect("install fake-rustfmt");
            use std::os::unix::fs::PermissionsExt;
            std::fs::set_permissions(path, std::fs::Permissions::from_mode(if exec { 0o755 } else { 0o644 })).unwrap();
        };
        match p.install {
            Install::CargoHome => place(&format!("{root}/cargo-home/bin/rustfmt"), true),
            Install::CargoSibling => {
                place(&format!("{root}/tool/rustfmt"), true);
                std::env::set_var("CARGO", format!("{root}/tool/cargo"));
            }
            Install::Absent => {}
            Install::NotExecutable => place(&format!("{root}/cargo-home/bin/rustfmt"), false),
            Install::IsDirectory => std::fs::create_dir_all(format!("{root}/cargo-home/bin/rustfmt")).unwrap(),
        }
        let (emitted, code) = stub_emits(env, &p.mode, &raw.generated);
        let emitted_str = String::from_utf8(emitted.clone()).ok();

        let backend = BackendSel::Rasn(p.cfg.clone());
        let srcs = fmt_srcs(&p.input);
        let outdir = format!("{root}/out");
        std::fs::create_dir_all(&outdir).unwrap();
        let (outsel, final_path) = match p.out {
            OutKind::File => (OutSel::File(format!("{outdir}/b.rs")), Some(format!("{outdir}/b.rs"))),
            OutKind::Dir => (OutSel::File(outdir.clone()), Some(format!("{outdir}/generated.rs"))),
            OutKind::Stdout => (OutSel::Stdout, None),
            OutKind::NoOutput => (OutSel::NoOutput, None),
        };
        let be = backend.clone();
        let body: sim::Body<(CompileOut, CompileOut)> = Box::new(move || {
            sim::op_begin("compile_to_string");
            let a = sut::compile_to_string(&be, &srcs, &BuilderPath::default());
            sim::op_end("compile_to_string");
            sim::op_begin("compile");
            let b = sut::compile(&be, &srcs, &outsel, &BuilderPath::default());
            sim::op_end("compile");
            (a, b)
        });
        let (mut results, rep) = sim::run_sim(&p.sim, None, root, vec![body]);
        out.steps = rep.sched.steps + rep.events.len() as u64;
        let Some((a, b)) = results.pop().flatten() else {
            out.harness_error = Some("sim thread died".into());
            return out;
        };
        let delivered: Option<Vec<u8>> = match p.out {
            OutKind::Stdout => Some(rep.stdout.clone()),
            _ => final_path.as_ref().and_then(|f| std::fs::read(f).ok()),
        };
        let ctx = format!(
            "formatter mode {} installed {:?} (stub alone: exit {:?}, {} bytes, utf8={}), raw {} bytes, out {:?}, compile_to_string -> {}, compile -> {}",
            p.mode,
            p.install,
            code,
            emitted.len(),
            emitted_str.is_some(),
            raw.generated.len(),
            p.out,
            a.brief(),
            b.brief().replace(root, "<ROOT>")
        );
        out.count(&format!("mode.{}", p.mode.split(':').next().unwrap_or("")), 1);
        out.count(&format!("install.{:?}", p.install), 1);
        if raw.generated.len() > 65536 {
            out.count("probe.formatter_input_over_64KiB", 1);
        }
        if self.c10 {
            // ---- C10 under a faulty formatter
            let (full, _) = stub_emits(env, "ok", &raw.generated);
            out.sigs.push(mix(fnv1a(raw.generated.as_bytes()), fnv1a(format!("{}{:?}", p.mode, p.install).as_bytes())));
            out.log_hash = fnv1a(format!("{}|{}", a.brief(), b.brief().replace(root, "")).as_bytes());
            out.sample = Some(json!({"case": ctx}));
            for (what, r, text) in [("compile_to_string()", &a, Some(a.generated.clone().into_bytes())), ("compile()", &b, delivered.clone())] {
                if let Some(pn) = &r.panic {
                    out.violate("returns-normally", format!("panic {pn} in {what}; {ctx}"));
                    continue;
                }
                if !r.ok {
                    out.count("not_judged.err_under_this_formatter", 1);
                    continue;
                }
                let Some(text) = text else { continue };
                let whole = text == raw.generated.as_bytes() || text == full;
                if whole {
                    out.count(if text == full { "bindings.completely_formatted" } else { "bindings.unformatted" }, 1);
                    continue;
                }
                let new_warnings = r.warnings.iter().filter(|w| !raw.warnings.contains(w)).count();
                if new_warnings == 0 {
                    // which definitions are gone: item names of the raw bindings that the text lacks
                    let t = String::from_utf8_lossy(&text).to_string();
                    let mut missing = vec![];
                    let toks: Vec<&str> = raw.generated.split_whitespace().collect();
                    for w in toks.windows(2) {
                        if matches!(w[0], "struct" | "enum" | "const" | "static" | "type") && !t.contains(w[1]) {
                            missing.push(w[1].to_string());
                        }
                    }
                    missing.dedup();
                    out.violate("no-silent-loss", format!("{what} returned Ok without a new warning, but the bindings ({} bytes) are neither the unformatted ({} bytes) nor the completely formatted ones ({} bytes); items missing from them: {:?}; {ctx}", text.len(), raw.generated.len(), full.len(), missing.iter().take(8).collect::<Vec<_>>()));
                }
            }
            return out;
        }
        if let Some(pn) = a.panic.as_ref().or(b.panic.as_ref()) {
            out.violate("O7-no-panic", format!("panic {pn}; {ctx}"));
            return out;
        }
        if !a.ok || !b.ok {
            out.violate("O7-formatter-failure-is-not-fatal", format!("the input compiles, yet with this formatter a call returned Err; {ctx}"));
            return out;
        }
        // the property's own sentence: compile() delivers exactly what compile_to_string() returns
        if delivered.as_deref() != Some(a.generated.as_bytes()) {
            out.violate("O7-delivery-equals-compile_to_string", format!("compile() delivered {} bytes, compile_to_string() returned {} bytes under the same formatter; {ctx}", delivered.as_ref().map_or(0, |d| d.len()), a.generated.len()));
        }
        // the text is either the raw bindings or what the stand-in really emitted
        let is_raw = a.generated == raw.generated;
        let is_emitted = emitted_str.as_deref() == Some(a.generated.as_str());
        if !is_raw && !is_emitted {
            out.violate("O7-raw-or-formatter-output", format!("the text is neither the unformatted bindings nor the formatter's output; {ctx}"));
        }
        let runnable = matches!(p.install, Install::CargoHome | Install::CargoSibling);
        let healthy = runnable && (p.mode == "ok" || p.mode == "slurp");
        if healthy && !is_emitted {
            out.violate("O7-healthy-formatter-is-used", format!("a healthy formatter is installed but its output was not used; {ctx}"));
        }
        if !runnable && !is_raw {
            out.violate("O7-raw-or-formatter-output", format!("no runnable formatter, yet the text is not the raw bindings; {ctx}"));
        }
        if is_emitted && !is_raw {
            out.count("probe.formatted_output_delivered", 1);
        }
        out.sigs.push(mix(fnv1a(raw.generated.as_bytes()), fnv1a(format!("{}{:?}{:?}", p.mode, p.install, p.out).as_bytes())));
        out.log_hash = fnv1a(format!("{}|{}|{:?}", a.brief(), b.brief().replace(root, ""), delivered.as_ref().map(|d| fnv1a(d))).as_bytes());
        out.sample = Some(json!({"case": ctx}));
        out
    }

    fn shrink(&self, plan: &Value) -> Vec<Value> {
        let p: FmtPlan = serde_json::from_value(plan.clone()).unwrap();
        let mut out = vec![];
        if let FmtInput::Gen(set) = &p.input {
            for mi in 0..set.modules.len() {
                for ai in (0..set.modules[mi].assigns.len()).rev() {
                    if let Some(s2) = set.without_assign(mi, ai) {
                        let mut q = p.clone();
                        q.input = FmtInput::Gen(s2);
                        out.push(serde_json::to_value(&q).unwrap());
                    }
                }
            }
        }
        if p.cfg != RasnCfg::default_cfg() {
            let mut q = p.clone();
            q.cfg = RasnCfg::default_cfg();
            out.push(serde_json::to_value(&q).unwrap());
        }
        out
    }
}

// =====================================================================  cli

#[derive(Clone, Debug, Serialize, Deserialize, PartialEq)]
pub enum CliOut {
    File,
    Dir,
    Stdout,
    NoOutput,
    /// no output argument: ./generated.<ext> in the current directory
    Default,
}

#[derive(Clone, Debug, Serialize, Deserialize, PartialEq)]
pub struct TreeEntry {
    /// path relative to the search directory
    pub rel: String,
    /// Some(i): module i's text; None: junk that must be ignored
    pub module: Option<usize>,
}

#[derive(Clone, Debug, Serialize, Deserialize, PartialEq)]
pub struct CliPlan {
    pub seed: u64,
    pub set: ModuleSet,
    /// index of a module made syntactically invalid
    pub malformed: Option<usize>,
    pub ts: bool,
    pub tree: Vec<TreeEntry>,
    /// (link path relative to the search dir, target relative to the link's directory)
    pub symlinks: Vec<(String, String)>,
    /// modules passed with -m (indices into tree), in this order
    pub dash_m: Vec<usize>,
    pub use_dir: bool,
    pub out: CliOut,
    pub dest_exists: bool,
    /// the pre-existing destination is much longer than any output
    #[serde(default)]
    pub dest_long: bool,
    /// name of the search directory (may be hidden, e.g. ".specs")
    #[serde(default)]
    pub search_name: String,
    /// an additional `-m` path that is not a readable module: "missing" | "dir" | "" (none)
    #[serde(default)]
    pub bad_m: String,
    /// how -d names it: "abs" | "dot" (cwd = the directory, `-d .`) | "rel" (`-d ../<name>`)
    #[serde(default)]
    pub dir_arg: String,
    pub faults: Vec<Fault>,
    pub entropy: u64,
    pub phase: String,
}

const OLD: &str = "// previous content\n";

fn old_content(p: &CliPlan) -> Vec<u8> {
    if p.dest_long {
        OLD.repeat(6000).into_bytes()
    } else {
        OLD.as_bytes().to_vec()
    }
}

fn module_text(p: &CliPlan, i: usize) -> String {
    let mut t = p.set.modules[i].text(&p.set.modules);
    if p.malformed == Some(i) {
        let mut at = t.len() / 2;
        while !t.is_char_boundary(at) {
            at += 1;
        }
        t.insert_str(at, " ::= `?? ");
    }
    t
}

/// the modules the command line names (with -d: every .asn/.asn1 below the directory)
fn expected_modules(p: &CliPlan) -> Vec<usize> {
    let mut v: Vec<usize> = p.dash_m.iter().filter_map(|t| p.tree[*t].module).collect();
    if p.use_dir {
        for e in &p.tree {
            if let Some(m) = e.module {
                if e.rel.ends_with(".asn") || e.rel.ends_with(".asn1") {
                    v.push(m);
                }
            }
        }
        // a symbolic link is a second name for its target: it is found under the link's name
        for (link, target) in &p.symlinks {
            if link.ends_with(".asn") || link.ends_with(".asn1") {
                let dir = &link[..link.len() - link.rsplit('/').next().unwrap_or("").len()];
                let full = format!("{dir}{target}");
                if let Some(m) = p.tree.iter().find(|e| e.rel == full).and_then(|e| e.module) {
                    v.push(m);
                }
            }
        }
    }
    v
}

pub struct C20Cli;

struct CliRun {
    status: Option<i32>,
    signal: Option<i32>,
    stdout: Vec<u8>,
    stderr: String,
    events: Vec<Event>,
    timed_out: bool,
}

fn run_cli(env: &Env, root: &str, args: &[String], cwd: &str, faults: &[Fault], entropy: u64) -> CliRun {
    use std::os::unix::process::ExitStatusExt;
    let log = format!("{root}/.simio-log");
    let _ = std::fs::remove_file(&log);
    let mut child = Command::new(&env.cli)
        .args(args)
        .current_dir(cwd)
        .env_clear()
        .env("LD_PRELOAD", format!("{}/target/libsimio.so", env.verif))
        .env("SIMIO_PLAN", shim::env_plan(root, entropy, faults, None))
        .env("SIMIO_LOG", &log)
        .env("CARGO_HOME", format!("{root}/cargo-home"))
        .env("NO_COLOR", "1")
        .stdin(Stdio::null())
        .stdout(Stdio::piped())
        .stderr(Stdio::piped())
        .spawn()
        .expect("spawn rasn_compiler_cli");
    // both pipes are drained while the child runs: a tool that prints more than a pipe buffer
    // (64 KiB of bindings on stdout, a long warning on stderr) would otherwise block in `write`
    // and look like one that does not terminate
    use std::io::Read;
    let mut so = child.stdout.take();
    let mut se = child.stderr.take();
    let t_out = std::thread::spawn(move || {
        let mut b = vec![];
        if let Some(p) = so.as_mut() {
            let _ = p.read_to_end(&mut b);
        }
        b
    });
    let t_err = std::thread::spawn(move || {
        let mut b = vec![];
        if let Some(p) = se.as_mut() {
            let _ = p.read_to_end(&mut b);
        }
        b
    });
    // bounded wait (the CLI has no reason to take more than a fraction of a second)
    let start = std::time::Instant::now();
    let mut timed_out = false;
    loop {
        match child.try_wait() {
            Ok(Some(_)) => break,
            Ok(None) => {
                if start.elapsed().as_secs() > 20 {
                    let _ = child.kill();
                    timed_out = true;
                    break;
                }
                std::thread::sleep(std::time::Duration::from_millis(2));
            }
            Err(_) => break,
        }
    }
    let status = child.wait().expect("collect cli status");
    let stdout = t_out.join().unwrap_or_default();
    let stderr = t_err.join().unwrap_or_default();
    let text = std::fs::read_to_string(&log).unwrap_or_default();
    let _ = std::fs::remove_file(&log);
    CliRun {
        status: status.code(),
        signal: status.signal(),
        stdout,
        stderr: String::from_utf8_lossy(&stderr).into_owned(),
        events: shim::parse_log(&text).into_iter().filter(|e| !e.path.contains(".simio-log")).collect(),
        timed_out,
    }
}

fn cli_faults_for(ev: &Event) -> Vec<Fault> {
    let e = |cls: u32, errno: i32| Fault::errno(cls, ev.ord, errno);
    match ev.call.as_str() {
        "open_r" => vec![e(shim::C_OPEN_R, libc::EINTR), e(shim::C_OPEN_R, libc::EACCES), e(shim::C_OPEN_R, libc::ENOENT)],
        "read" => {
            let mut v = vec![e(shim::C_READ, libc::EINTR), e(shim::C_READ, libc::EIO)];
            if ev.res > 1 {
                v.push(Fault { cls: shim::C_READ, ord: ev.ord, kind: shim::F_SHORT, a: (ev.res as u64 / 2).max(1), b: 0 });
                // the stored bytes changed underneath the program: at THIS read the file is empty
                // (it was truncated or replaced after it had been listed, opened — or read before)
                v.push(Fault { cls: shim::C_READ, ord: ev.ord, kind: shim::F_EOF, a: 0, b: 0 });
            }
            v
        }
        "open_w" => vec![e(shim::C_OPEN_W, libc::EINTR), e(shim::C_OPEN_W, libc::EACCES), e(shim::C_OPEN_W, libc::ENOSPC), e(shim::C_OPEN_W, libc::EROFS)],
        "write" => {
            let mut v = vec![e(shim::C_WRITE, libc::EINTR), e(shim::C_WRITE, libc::ENOSPC), e(shim::C_WRITE, libc::EIO)];
            if ev.req > 1 {
                v.push(Fault { cls: shim::C_WRITE, ord: ev.ord, kind: shim::F_SHORT, a: (ev.req as u64 / 2).max(1), b: 0 });
            }
            v
        }
        "write_stdout" => vec![e(shim::C_WRITE_STDOUT, libc::EINTR), e(shim::C_WRITE_STDOUT, libc::EPIPE), e(shim::C_WRITE_STDOUT, libc::ENOSPC)],
        "opendir" => vec![e(shim::C_OPENDIR, libc::EACCES), Fault { cls: shim::C_OPENDIR, ord: ev.ord, kind: shim::F_PERM, a: ev.seq * 7919 + 13, b: 0 }],
        "readdir" if ev.res > 0 => vec![e(shim::C_READDIR, libc::EIO)],
        _ => vec![],
    }
}

impl Scenario for C20Cli {
    fn property(&self) -> &'static str {
        "C20"
    }
    fn name(&self) -> &'static str {
        "cli"
    }
    fn runs(&self, tier: Tier) -> u64 {
        match tier {
            Tier::Quick => 160,
            Tier::Thorough => 1600,
        }
    }
    fn needs_reference(&self) -> bool {
        true
    }
    fn crash_is_violation(&self) -> bool {
        true
    }
    fn has_subprocess(&self) -> bool {
        true
    }

    fn plan(&self, seed: u64, _idx: u64, _tier: Tier, _env: &Env) -> Value {
        let root = Rng::new(seed);
        let mut w = root.fork("workload");
        let mut cfg = GenCfg::default_cfg();
        cfg.modules = (1, 4);
        cfg.assigns = (1, 6);
        // one run in eight: ORDER-SENSITIVE sources. Two modules define the same top-level name, of
        // which the compiler keeps the one handed over last (known finding F1 of C10/C11/C12 —
        // here it is merely a source whose bindings depend on the order of the `-m` arguments);
        // all modules are given with -m, so the order is the one on the command line, and the tool
        // must produce what the library produces for the sources in THAT order
        let order_sensitive = w.chance(1, 8);
        if order_sensitive {
            cfg.xmod_same_name = true;
            cfg.modules = (2, 4);
        }
        let set = gen::generate(&mut w, &cfg);
        let n = set.modules.len();
        let malformed = if !order_sensitive && w.chance(1, 6) { Some(w.below(n)) } else { None };
        let dirs = ["", "sub/", "sub/deeper/", "other.d/", "a-b/", ".hidden/", "sub/.git-like/", "v1,v2/", "old.asn/"];
        let mut tree = vec![];
        for i in 0..n {
            let ext = *w.pick(&["asn", "asn1", "asn", "ASN", "txt"]);
            // a module under a non-matching extension can only be named with -m
            // unusual but valid file names: a path is a path, whatever punctuation it holds (no blank:
            // the event log separates its fields with blanks)
            let odd = ["", "", "", "", ",v2", "=final", "#1", "+x", "-\u{f6}", "@2x", ";1", ":b"][(mix(seed, 0x0dd + i as u64) % 12) as usize];
            tree.push(TreeEntry { rel: format!("{}mod{i}{odd}.{ext}", w.pick(&dirs)), module: Some(i) });
        }
        for k in 0..w.below(3) {
            tree.push(TreeEntry { rel: format!("{}junk{k}.{}", w.pick(&dirs), w.pick(&["txt", "md", "asn.bak", "asn1~"])), module: None });
        }
        let mut symlinks = vec![];
        if w.chance(1, 4) {
            // a link to one of the module files (a second name for the same module)
            let t = w.below(n);
            let base = tree[t].rel.rsplit('/').next().unwrap().to_string();
            let dir = tree[t].rel[..tree[t].rel.len() - base.len()].to_string();
            symlinks.push((format!("{dir}link{t}.asn"), base));
        }
        if w.chance(1, 5) {
            symlinks.push(("sub/loop".to_string(), "..".to_string())); // directory loop
        }
        let use_dir = !order_sensitive && w.chance(2, 3);
        let mut dash_m = vec![];
        if !use_dir || w.chance(1, 4) {
            for (ti, e) in tree.iter().enumerate() {
                if e.module.is_some() && (!use_dir || w.chance(1, 2)) {
                    dash_m.push(ti);
                }
            }
            w.shuffle(&mut dash_m);
        }
        let out = match w.below(8) {
            0 => CliOut::Stdout,
            1 => CliOut::NoOutput,
            2 => CliOut::Default,
            3 | 4 => CliOut::Dir,
            _ => CliOut::File,
        };
        let p = CliPlan { seed, set, malformed, ts: w.chance(1, 3), tree, symlinks, dash_m, use_dir, out, dest_exists: w.chance(1, 2), dest_long: w.chance(1, 2), search_name: w.pick(&["specs", "specs", ".specs", "my specs"]).to_string(), dir_arg: w.pick(&["abs", "abs", "dot", "rel"]).to_string(), bad_m: w.pick(&["", "", "", "", "", "missing", "dir"]).to_string(), faults: vec![], entropy: root.fork("hashkeys").next_u64(), phase: "fault-free".into() };
        serde_json::to_value(&p).unwrap()
    }

    /// the library on the same module texts (pristine process)
    fn reference(&self, plan: &Value, _env: &Env) -> Value {
        let p: CliPlan = serde_json::from_value(plan.clone()).expect("cli plan");
        std::env::remove_var("CARGO");
        std::env::set_var("CARGO_HOME", "/nonexistent-dsim-cargo-home");
        let mods = expected_modules(&p);
        if mods.is_empty() {
            return json!({"none": true});
        }
        let srcs: Vec<Src> = mods.iter().map(|i| Src::Literal(module_text(&p, *i))).collect();
        let be = if p.ts { BackendSel::Ts } else { BackendSel::Rasn(RasnCfg::default_cfg()) };
        serde_json::to_value(&sut::compile_to_string(&be, &srcs, &BuilderPath::default())).unwrap()
    }

    fn execute(&self, plan: &Value, refs: &Value, root: &str, env: &Env) -> Outcome {
        let p: CliPlan = serde_json::from_value(plan.clone()).expect("cli plan");
        let mut out = Outcome::default();
        let no_modules = refs.get("none").is_some();
        let reference: Option<CompileOut> = if no_modules { None } else { serde_json::from_value(refs.clone()).ok() };
        if !no_modules && reference.is_none() {
            out.inconclusive.push(format!("reference crashed: {refs}"));
            return out;
        }
        // ---- lay out the tree
        let search = format!("{root}/{}", if p.search_name.is_empty() { "specs" } else { p.search_name.as_str() });
        std::fs::create_dir_all(&search).unwrap();
        for e in &p.tree {
            let path = format!("{search}/{}", e.rel);
            std::fs::create_dir_all(std::path::Path::new(&path).parent().unwrap()).unwrap();
            let text = match e.module {
                Some(i) => module_text(&p, i),
                None => "this is not ASN.1 ::= {{{ and must be ignored\n".to_string(),
            };
            std::fs::write(&path, text).unwrap();
        }
        for (link, target) in &p.symlinks {
            let path = format!("{search}/{link}");
            std::fs::create_dir_all(std::path::Path::new(&path).parent().unwrap()).unwrap();
            let _ = std::os::unix::fs::symlink(target, &path);
        }
        let cwd = if p.use_dir && p.dir_arg == "dot" { search.clone() } else { format!("{root}/cwd") };
        std::fs::create_dir_all(&cwd).unwrap();
        let ext = if p.ts { ".ts" } else { ".rs" };
        let mut args: Vec<String> = vec![];
        if p.use_dir {
            args.push("-d".into());
            args.push(match p.dir_arg.as_str() {
                "dot" => ".".to_string(),
                "rel" => format!("../{}", search.rsplit('/').next().unwrap()),
                _ => search.clone(),
            });
        }
        if !p.dash_m.is_empty() {
            args.push("-m".into());
            for t in &p.dash_m {
                args.push(format!("{search}/{}", p.tree[*t].rel));
            }
        }
        if !p.bad_m.is_empty() {
            // one more -m path, which the library cannot read: the whole run must fail
            let bad = format!("{search}/{}", if p.bad_m == "dir" { "a-directory.asn" } else { "no-such-file.asn" });
            if p.bad_m == "dir" {
                std::fs::create_dir_all(&bad).unwrap();
            }
            if p.dash_m.is_empty() {
                args.push("-m".into());
            }
            args.push(bad);
        }
        if p.ts {
            args.push("-b".into());
            args.push("typescript".into());
        }
        let outdir = format!("{root}/out");
        std::fs::create_dir_all(&outdir).unwrap();
        let final_path: Option<String> = match p.out {
            CliOut::File => {
                args.push("-o".into());
                args.push(format!("{outdir}/bindings{ext}"));
                Some(format!("{outdir}/bindings{ext}"))
            }
            CliOut::Dir => {
                args.push("-o".into());
                args.push(outdir.clone());
                Some(format!("{outdir}/generated{ext}"))
            }
            CliOut::Stdout => {
                args.push("--stdout".into());
                None
            }
            CliOut::NoOutput => {
                args.push("--no-output".into());
                None
            }
            CliOut::Default => Some(format!("{cwd}/generated{ext}")),
        };
        if p.dest_exists {
            if let Some(f) = &final_path {
                std::fs::write(f, old_content(&p)).unwrap();
            }
        }
        let run = run_cli(env, root, &args, &cwd, &p.faults, p.entropy);
        out.steps = run.events.len() as u64;
        let io: Vec<&Event> = run.events.iter().filter(|e| e.call != "note").collect();
        let fired: Vec<&Event> = io.iter().copied().filter(|e| e.fault != "none").collect();
        let mutating: Vec<&Event> = io.iter().copied().filter(|e| e.is_mutating()).collect();
        let delivered = match p.out {
            CliOut::Stdout => Some(run.stdout.clone()),
            CliOut::NoOutput => None,
            _ => final_path.as_ref().and_then(|f| std::fs::read(f).ok()),
        };
        let fault_desc: Vec<String> = p.faults.iter().map(|f| f.describe()).collect();
        let ctx = format!(
            "args {:?}, backend {}, out {:?} (pre-existing: {}), faults {:?}, exit {:?} signal {:?}, stderr: {}",
            args.iter().map(|a| a.replace(root, "<ROOT>")).collect::<Vec<_>>(),
            if p.ts { "typescript" } else { "rasn" },
            p.out,
            p.dest_exists,
            fault_desc,
            run.status,
            run.signal,
            crate::core::truncate(&run.stderr.replace(root, "<ROOT>"), 400)
        );
        out.count(&format!("out.{:?}", p.out), 1);
        out.count(&format!("phase.{}", p.phase), 1);
        out.count(if p.use_dir { "args.directory_search" } else { "args.module_files" }, 1);
        if p.use_dir && p.tree.iter().any(|t| t.rel.starts_with("old.asn/")) {
            out.count("probe.searched_tree_holds_a_directory_named_like_a_module", 1);
        }
        if p.dash_m.iter().any(|t| p.tree[*t].rel.contains(|c: char| ",=#+@;:".contains(c) || !c.is_ascii())) {
            out.count("probe.module_argument_with_punctuation_in_its_path", 1);
        }
        for e in &fired {
            out.count(&format!("fault_fired.{}:{}", e.call, e.fault), 1);
        }
        if !p.symlinks.is_empty() {
            out.count("probe.tree_with_symlink", 1);
        }
        // ---- O5
        if run.timed_out {
            out.violate("O5-cli-terminates", format!("the command line tool did not terminate within 20 s; {ctx}"));
            return out;
        }
        if run.signal.is_some() || run.stderr.contains("panicked at") || run.status == Some(101) {
            out.violate("O5-cli-no-crash", format!("the command line tool crashed; {ctx}"));
            return out;
        }
        if p.faults.iter().any(|f| f.kind == shim::F_EOF) && fired.iter().any(|e| e.fault != "none" && e.call == "read") {
            // a module file that turned out empty when it was read: what the compilation of the
            // remaining text gives is not judged, only that the tool neither crashed nor hung
            out.count("not_judged.source_content_changed_underneath", 1);
            out.log_hash = fnv1a(format!("{:?}|{}", run.status, run.events.len()).as_bytes());
            return out;
        }
        let hard = |classes: &[&str]| {
            p.faults.iter().any(|f| {
                let cn = shim::CLASS_NAMES[f.cls as usize];
                !is_benign(f) && classes.contains(&cn) && fired.iter().any(|e| e.call == cn && (e.ord == f.ord || f.ord == shim::ANY_ORD))
            })
        };
        // walkdir opens every directory once more (loop detection through same_file): an
        // open_r / read on something that is not one of the module files belongs to the walk
        let is_module_file = |e: &Event| p.tree.iter().any(|t| e.path.ends_with(&t.rel)) || p.symlinks.iter().any(|(l, _)| (l.ends_with(".asn") || l.ends_with(".asn1")) && e.path.ends_with(l.as_str()));
        let src_fault_on_dir = p.faults.iter().any(|f| {
            let cn = shim::CLASS_NAMES[f.cls as usize];
            !is_benign(f) && (cn == "open_r" || cn == "read") && fired.iter().any(|e| e.call == cn && e.ord == f.ord && !is_module_file(e))
        });
        let hard_walk = hard(&["opendir", "readdir", "stat", "readlink"]) || src_fault_on_dir;
        let hard_src = hard(&["open_r", "read"]) && !src_fault_on_dir;
        let hard_dst = hard(&["open_w", "write", "write_stdout"]);
        let ok = run.status == Some(0);
        if hard_walk {
            // an unreadable directory entry is a warning, not a crash; what is compiled then
            // depends on what was still found, which is not judged
            out.count("not_judged.directory_walk_fault", 1);
            if !run.stderr.contains("warning") && ok {
                out.count("probe.walk_fault_without_warning", 1);
            }
        } else if no_modules {
            if ok {
                out.violate("O5-exit-status", format!("no module was named or found but the exit status is 0; {ctx}"));
            }
            if !mutating.is_empty() {
                out.violate("O5-nothing-on-failure", format!("no modules, yet mutating I/O: {:?}; {ctx}", mutating.iter().map(|e| format!("{}({})", e.call, e.path)).collect::<Vec<_>>()));
            }
        } else {
            let r0 = reference.as_ref().unwrap();
            let expect_ok = r0.ok && !hard_src && !hard_dst && p.bad_m.is_empty();
            if ok != expect_ok {
                out.violate(
                    "O5-exit-status",
                    format!("the library returns {} on the same files under the same fault plan (source fault: {hard_src}, destination fault: {hard_dst}), but the exit status is {:?}; {ctx}", if r0.ok { "Ok" } else { "Err" }, run.status),
                );
            } else if ok {
                match p.out {
                    CliOut::NoOutput => {
                        if !mutating.is_empty() {
                            out.violate("O5-no-output-writes-nothing", format!("--no-output issued mutating I/O; {ctx}"));
                        }
                    }
                    _ => {
                        if delivered.as_deref() != Some(r0.generated.as_bytes()) {
                            out.violate(
                                "O5-cli-equals-library",
                                format!("delivered {} bytes, the library's compile_to_string() gives {} bytes; {ctx}", delivered.as_ref().map_or(0, |d| d.len()), r0.generated.len()),
                            );
                        }
                    }
                }
            } else if !hard_dst {
                // failed before delivery: nothing written or overwritten
                if !mutating.is_empty() {
                    out.violate("O5-nothing-on-failure", format!("failed run issued mutating I/O: {:?}; {ctx}", mutating.iter().map(|e| format!("{}({})", e.call, e.path)).collect::<Vec<_>>()));
                }
                if p.dest_exists {
                    if let Some(f) = &final_path {
                        if std::fs::read(f).ok() != Some(old_content(&p)) {
                            out.violate("O5-nothing-on-failure", format!("pre-existing destination changed by a failed run; {ctx}"));
                        }
                    }
                }
                if p.out == CliOut::Stdout && !run.stdout.is_empty() {
                    out.violate("O5-nothing-on-failure", format!("failed run wrote {} bytes to stdout; {ctx}", run.stdout.len()));
                }
            }
        }
        let io_sig = io.iter().fold(0xcbf29ce484222325u64, |h, e| mix(h, fnv1a(format!("{}:{}:{}", e.call, e.res.signum(), e.fault).as_bytes())));
        out.sigs.push(mix(fnv1a(format!("{args:?}{fault_desc:?}").replace(root, "").as_bytes()), io_sig));
        out.log_hash = fnv1a(format!("{:?}|{:?}|{}|{:?}", run.status, delivered.as_ref().map(|d| fnv1a(d)), run.events.iter().map(|e| format!("{}{}{}{};", e.call, e.ord, e.path, e.res)).collect::<String>(), out.violations).as_bytes());
        if p.phase == "fault-free" {
            out.trace = Some(serde_json::to_value(&run.events).unwrap());
            out.sample = Some(json!({"cli": ctx, "io_trace": io.iter().take(40).map(|e| format!("{}#{} {} -> {}", e.call, e.ord, e.path, e.res)).collect::<Vec<_>>() }));
        }
        out
    }

    fn followups(&self, plan: &Value, outcome: &Outcome) -> Vec<Value> {
        let p: CliPlan = serde_json::from_value(plan.clone()).expect("cli plan");
        if p.phase != "fault-free" {
            return vec![];
        }
        let Some(trace) = outcome.trace.as_ref().and_then(|t| serde_json::from_value::<Vec<Event>>(t.clone()).ok()) else {
            return vec![];
        };
        let mut plans = vec![];
        for ev in &trace {
            for f in cli_faults_for(ev) {
                let mut q = p.clone();
                q.phase = "sweep".into();
                q.faults = vec![f];
                plans.push(serde_json::to_value(&q).unwrap());
            }
        }
        // every directory listing permuted at once, twice
        for k in 0..2u64 {
            let mut q = p.clone();
            q.phase = "sweep".into();
            q.faults = vec![Fault { cls: shim::C_OPENDIR, ord: shim::ANY_ORD, kind: shim::F_PERM, a: p.seed.wrapping_mul(31).wrapping_add(k), b: 0 }];
            plans.push(serde_json::to_value(&q).unwrap());
        }
        plans
    }

    fn shrink(&self, plan: &Value) -> Vec<Value> {
        let p: CliPlan = serde_json::from_value(plan.clone()).unwrap();
        let mut out = vec![];
        for i in 0..p.faults.len() {
            let mut q = p.clone();
            q.faults.remove(i);
            out.push(serde_json::to_value(&q).unwrap());
        }
        for i in 0..p.symlinks.len() {
            let mut q = p.clone();
            q.symlinks.remove(i);
            out.push(serde_json::to_value(&q).unwrap());
        }
        for i in (0..p.tree.len()).rev() {
            if p.tree[i].module.is_none() {
                let mut q = p.clone();
                q.tree.remove(i);
                q.dash_m = q.dash_m.iter().filter(|t| **t != i).map(|t| if *t > i { *t - 1 } else { *t }).collect();
                out.push(serde_json::to_value(&q).unwrap());
            }
        }
        for mi in 0..p.set.modules.len() {
            for ai in (0..p.set.modules[mi].assigns.len()).rev() {
                if let Some(s2) = p.set.without_assign(mi, ai) {
                    let mut q = p.clone();
                    q.set = s2;
                    out.push(serde_json::to_value(&q).unwrap());
                }
            }
        }
        out
    }
}

// =====================================================================  macro

mod canon_mod {
    include!("../../macro-capture/src/canon.rs");
    pub fn canonical(src: &str) -> Result<String, String> {
        let ts: proc_macro2::TokenStream = src.parse().map_err(|e| format!("{e}"))?;
        let mut s = String::new();
        canon(ts, &mut s);
        Ok(s)
    }
}

#[derive(Clone, Debug, Serialize, Deserialize, PartialEq)]
pub struct MacroPlan {
    pub seed: u64,
    /// the string literals handed to asn1!
    pub inputs: Vec<String>,
}

/// the text the macro is documented to compile: bare snippets are wrapped in a dummy
/// AUTOMATIC TAGS module named `asn1`
fn documented_text(lit: &str) -> String {
    if lit.contains("BEGIN") {
        lit.to_string()
    } else {
        format!("asn1 {{ dummy(999) header(999) }}\n\nDEFINITIONS AUTOMATIC TAGS::= BEGIN\n{lit}END")
    }
}

pub struct C20Macro;

impl Scenario for C20Macro {
    fn property(&self) -> &'static str {
        "C20"
    }
    fn name(&self) -> &'static str {
        "macro"
    }
    fn runs(&self, tier: Tier) -> u64 {
        match tier {
            Tier::Quick => 32,
            Tier::Thorough => 400,
        }
    }
    fn needs_reference(&self) -> bool {
        true
    }
    fn has_subprocess(&self) -> bool {
        true
    }
    fn crash_is_violation(&self) -> bool {
        false
    }

    fn plan(&self, seed: u64, _idx: u64, _tier: Tier, _env: &Env) -> Value {
        let root = Rng::new(seed);
        let mut w = root.fork("workload");
        let mut inputs = vec![];
        for _ in 0..24 {
            let mut cfg = GenCfg::default_cfg();
            cfg.modules = (1, 1);
            cfg.assigns = (1, 5);
            cfg.imports = false;
            let set = gen::generate(&mut w, &cfg);
            let m = &set.modules[0];
            let body: String = m.assigns.iter().map(|a| format!("{}\n", a.text)).collect();
            let lit = match w.below(15) {
                // bare snippet: the macro wraps it
                0..=4 => body,
                // bare snippets that merely MENTION header keywords (comments, identifiers):
                // whether they get wrapped is decided by the documented rule only
                10 => format!("-- the DEFINITIONS below follow the END of clause 7 --\n{body}-- END OF DEFINITIONS\n"),
                11 => format!("Definitions-List ::= SEQUENCE OF INTEGER\nEND-Marker ::= NULL\n{body}"),
                12 => format!("BEGINNER-Level ::= INTEGER (0..7)\n{body}"),
                // layout inside the literal: CRLF line ends, tabs, leading / trailing blank lines
                13 => format!("\r\n\t{}\r\n\r\n", body.replace('\n', "\r\n")),
                14 => format!("\n\n   {body}   \n\t\n"),
                // a whole module (contains BEGIN): compiled as is, with its own TAGS default
                5..=7 => m.text(&set.modules),
                // malformed bare snippet / malformed module: the macro must fail, as the library does
                8 => format!("{body} Broken ::= INTEGR ((\n"),
                _ => m.text(&set.modules).replacen("::=", ":=", 1),
            };
            inputs.push(lit);
        }
        serde_json::to_value(&MacroPlan { seed, inputs }).unwrap()
    }

    /// the library on the documented text, one pristine process per input would be ideal;
    /// inputs are independent single modules, so one process serves the batch
    fn reference(&self, plan: &Value, _env: &Env) -> Value {
        let p: MacroPlan = serde_json::from_value(plan.clone()).expect("macro plan");
        std::env::remove_var("CARGO");
        std::env::set_var("CARGO_HOME", "/nonexistent-dsim-cargo-home");
        let outs: Vec<CompileOut> = p
            .inputs
            .iter()
            .map(|l| sut::compile_to_string(&BackendSel::Rasn(RasnCfg::default_cfg()), &[Src::Literal(documented_text(l))], &BuilderPath::default()))
            .collect();
        serde_json::to_value(&outs).unwrap()
    }

    fn execute(&self, plan: &Value, refs: &Value, root: &str, env: &Env) -> Outcome {
        let p: MacroPlan = serde_json::from_value(plan.clone()).expect("macro plan");
        let mut out = Outcome::default();
        let Ok(refs) = serde_json::from_value::<Vec<CompileOut>>(refs.clone()) else {
            out.inconclusive.push("reference crashed".into());
            return out;
        };
        // a crate whose only content is one asn1_capture! per input, expanded by a real rustc
        let mut src = String::new();
        for (i, l) in p.inputs.iter().enumerate() {
            let mut hashes = String::from("#");
            while l.contains(&format!("\"{hashes}")) {
                hashes.push('#');
            }
            src.push_str(&format!("macro_capture::asn1_capture!(\"{root}/cap{i}\", r{hashes}\"{l}\"{hashes});\n"));
        }
        let batch = format!("{root}/batch.rs");
        std::fs::write(&batch, &src).unwrap();
        let sysroot = Command::new("rustc").arg("--print").arg("sysroot").env_remove("LD_PRELOAD").output().ok().map(|o| String::from_utf8_lossy(&o.stdout).trim().to_string()).unwrap_or_default();
        let so = format!("{}/target/macro/release/libmacro_capture.so", env.verif);
        // the real rustc, not the rustup proxy (which exports CARGO_HOME and thereby a rustfmt)
        let o = Command::new(format!("{sysroot}/bin/rustc"))
            .env_clear()
            .env("PATH", "/usr/bin:/bin")
            .args(["--edition", "2021", "--crate-type", "lib", "--emit=metadata", "-o", &format!("{root}/batch.rmeta"), "--extern", &format!("macro_capture={so}"), &batch])
            .output();
        let o = match o {
            Ok(o) => o,
            Err(e) => {
                out.harness_error = Some(format!("cannot run rustc: {e}"));
                return out;
            }
        };
        if !o.status.success() {
            out.harness_error = Some(format!("rustc failed on the capture crate: {}", crate::core::truncate(&String::from_utf8_lossy(&o.stderr), 600)));
            return out;
        }
        let mut digest = String::new();
        for (i, (l, r0)) in p.inputs.iter().zip(refs.iter()).enumerate() {
            let cap = std::fs::read_to_string(format!("{root}/cap{i}")).unwrap_or_default();
            digest.push_str(&format!("{i}:{};", fnv1a(cap.as_bytes())));
            let wrapped = !l.contains("BEGIN");
            let ctx = format!("input #{i} ({}): {}", if wrapped { "bare snippet, wrapped by the macro" } else { "whole module" }, crate::core::truncate(l, 300));
            out.count("macro_expansions", 1);
            out.count(if wrapped { "input.bare_snippet" } else { "input.whole_module" }, 1);
            if cap.is_empty() {
                out.harness_error = Some(format!("no capture file for input #{i}"));
                continue;
            }
            let macro_panicked = cap.starts_with("PANIC");
            if r0.panic.is_some() {
                out.inconclusive.push(format!("library panicked on {ctx}"));
                continue;
            }
            if !r0.ok {
                out.count("library_err", 1);
                if !macro_panicked {
                    out.violate("O6-macro-fails-iff-library-errs", format!("compile_to_string() is Err({:?}) but asn1! expanded successfully; {ctx}", r0.err));
                }
                continue;
            }
            let lib = match canon_mod::canonical(&r0.generated) {
                Ok(s) => s,
                Err(e) => {
                    // the library's text is not a Rust token stream: the macro's parse().unwrap() fails too
                    if !macro_panicked {
                        out.violate("O6-macro-equals-library", format!("library output does not tokenize ({e}) but the macro expanded; {ctx}"));
                    }
                    continue;
                }
            };
            if macro_panicked {
                out.violate("O6-macro-fails-iff-library-errs", format!("compile_to_string() is Ok but asn1! panicked; {ctx}"));
                continue;
            }
            let got = cap.strip_prefix("OK\n").unwrap_or(&cap);
            if got != lib {
                let first = got.bytes().zip(lib.bytes()).position(|(a, b)| a != b).unwrap_or(got.len().min(lib.len()));
                let cut = |s: &str| {
                    let mut a = first.saturating_sub(80).min(s.len());
                    while !s.is_char_boundary(a) {
                        a -= 1;
                    }
                    let mut b = (first + 80).min(s.len());
                    while !s.is_char_boundary(b) {
                        b -= 1;
                    }
                    s[a..b].to_string()
                };
                out.violate("O6-macro-equals-library", format!("expansion differs from the parse of compile_to_string(): library …{}… / macro …{}…; {ctx}", cut(&lib), cut(got)));
            }
            out.sigs.push(fnv1a(l.as_bytes()));
        }
        out.steps = p.inputs.len() as u64;
        out.log_hash = fnv1a(digest.as_bytes());
        out.sample = Some(json!({"inputs": p.inputs.len(), "first": crate::core::truncate(&p.inputs[0], 200)}));
        out
    }

    fn shrink(&self, plan: &Value) -> Vec<Value> {
        let p: MacroPlan = serde_json::from_value(plan.clone()).unwrap();
        let mut out = vec![];
        if p.inputs.len() > 1 {
            for i in 0..p.inputs.len() {
                let mut q = p.clone();
                q.inputs = vec![p.inputs[i].clone()];
                out.push(serde_json::to_value(&q).unwrap());
            }
        }
        out
    }
}
