//! Scenario interface, run execution (reference child + simulation child), worker loop,
//! driver, minimiser, known findings, evidence.

use crate::proc::{fork_run, signal_name, Exit};
use crate::rng::{fnv1a, mix, splitmix64};
use serde::{Deserialize, Serialize};
use serde_json::{json, Value};
use std::collections::{BTreeMap, BTreeSet};
use std::io::Write;
use std::time::Instant;

#[derive(Clone, Copy, Debug, PartialEq)]
pub enum Tier {
    Quick,
    Thorough,
}
impl Tier {
    pub fn parse(s: &str) -> Tier {
        if s == "thorough" {
            Tier::Thorough
        } else {
            Tier::Quick
        }
    }
    pub fn name(&self) -> &'static str {
        match self {
            Tier::Quick => "quick",
            Tier::Thorough => "thorough",
        }
    }
}

#[derive(Clone, Debug, Serialize, Deserialize, PartialEq)]
pub struct Violation {
    pub oracle: String,
    pub msg: String,
}

#[derive(Clone, Debug, Default, Serialize, Deserialize)]
pub struct Outcome {
    pub violations: Vec<Violation>,
    /// crashes etc. that make the run inconclusive for this property (not a violation of it)
    pub inconclusive: Vec<String>,
    pub counters: BTreeMap<String, u64>,
    /// signatures of the distinct non-trivial cases this run explored
    pub sigs: Vec<u64>,
    pub steps: u64,
    pub schedule: Vec<u8>,
    pub log_hash: u64,
    pub sample: Option<Value>,
    pub harness_error: Option<String>,
    /// scenario-private data handed from a run to `Scenario::followups` (e.g. the fault-free I/O trace)
    pub trace: Option<Value>,
}

impl Outcome {
    pub fn count(&mut self, key: &str, n: u64) {
        *self.counters.entry(key.to_string()).or_insert(0) += n;
    }
    pub fn violate(&mut self, oracle: &str, msg: String) {
        self.violations.push(Violation { oracle: oracle.into(), msg });
    }
}

pub struct Env {
    pub verif: String,
    pub shm: String,
    pub corpus: Vec<String>,
    pub fake_rustfmt: String,
    pub cli: String,
}

impl Env {
    pub fn detect() -> Env {
        let verif = std::env::var("DSIM_VERIF").unwrap_or_else(|_| "/verif".into());
        let mut corpus = vec![];
        let dir = "/repo/rasn-compiler-tests/tests/modules";
        if let Ok(rd) = std::fs::read_dir(dir) {
            for e in rd.flatten() {
                let p = e.path();
                if p.is_file() {
                    corpus.push(p.to_string_lossy().into_owned());
                }
            }
        }
        corpus.sort();
        Env {
            shm: "/dev/shm/dsim".into(),
            corpus,
            fake_rustfmt: format!("{verif}/target/fake-rustfmt"),
            cli: format!("{verif}/target/cli/release/rasn_compiler_cli"),
            verif,
        }
    }
}

pub trait Scenario: Sync {
    fn property(&self) -> &'static str;
    fn name(&self) -> &'static str;
    /// number of runs for a tier
    fn runs(&self, tier: Tier) -> u64;
    /// PRNG -> explicit plan. Pure: must not call the system under test.
    fn plan(&self, seed: u64, idx: u64, tier: Tier, env: &Env) -> Value;
    fn needs_reference(&self) -> bool {
        false
    }
    /// Runs in a reference child of its own (pristine process image).
    fn reference(&self, _plan: &Value, _env: &Env) -> Value {
        Value::Null
    }
    /// Runs in the simulation child. `root` is the run's private directory (exists, empty).
    fn execute(&self, plan: &Value, refs: &Value, root: &str, env: &Env) -> Outcome;
    /// A crash (signal, abort, CPU budget) of the simulation child violates this property?
    fn crash_is_violation(&self) -> bool {
        false
    }
    /// one-step reductions of a failing plan, most aggressive first
    fn shrink(&self, _plan: &Value) -> Vec<Value> {
        vec![]
    }
    /// key under which this violation would be listed in known_findings.txt
    fn finding_key(&self, _plan: &Value, v: &Violation) -> String {
        v.oracle.clone()
    }
    fn cpu_budget_secs(&self) -> u64 {
        20
    }
    /// only scenarios with a subprocess may legitimately be reaped by the wall backstop
    fn has_subprocess(&self) -> bool {
        false
    }
    /// Follow-up plans derived from a run's outcome (e.g. the complete single-fault sweep of
    /// the I/O trace recorded by a fault-free run). Deterministic in (plan, outcome).
    fn followups(&self, _plan: &Value, _outcome: &Outcome) -> Vec<Value> {
        vec![]
    }
}

#[derive(Clone, Debug, Serialize, Deserialize)]
pub struct RunResult {
    pub outcome: Outcome,
    pub crash: Option<String>,
}

static RUN_COUNTER: std::sync::atomic::AtomicU64 = std::sync::atomic::AtomicU64::new(0);

/// Execute one plan: reference child (if any), then simulation child.
pub fn run_plan(scn: &dyn Scenario, plan: &Value, env: &Env) -> RunResult {
    let cpu = scn.cpu_budget_secs();
    let wall = (cpu as i64) * 10_000;
    let refs = if scn.needs_reference() {
        let out = fork_run(cpu * 4, wall * 4, |w| {
            crate::sut::install_panic_hook();
            let v = scn.reference(plan, env);
            let _ = w.write_all(serde_json::to_string(&v).unwrap().as_bytes());
        });
        match (&out.exit, serde_json::from_slice::<Value>(&out.bytes)) {
            (Exit::Code(0), Ok(v)) => v,
            (e, _) => json!({ "ref_crash": format!("{e:?}") }),
        }
    } else {
        Value::Null
    };
    let n = RUN_COUNTER.fetch_add(1, std::sync::atomic::Ordering::Relaxed);
    let root = format!("{}/{}-{}", env.shm, std::process::id(), n);
    let _ = std::fs::remove_dir_all(&root);
    std::fs::create_dir_all(&root).expect("cannot create run root");
    let out = fork_run(cpu, wall, |w| {
        crate::sut::install_panic_hook();
        crate::sim::set_has_subprocess(scn.has_subprocess());
        let o = scn.execute(plan, &refs, &root, env);
        let _ = w.write_all(serde_json::to_string(&o).unwrap().as_bytes());
    });
    let _ = std::fs::remove_dir_all(&root);
    let parsed = serde_json::from_slice::<Outcome>(&out.bytes);
    match (&out.exit, parsed) {
        (Exit::Code(0), Ok(o)) => RunResult { outcome: o, crash: None },
        (exit, _) => {
            let what = match exit {
                Exit::Signal(s) => format!("child terminated by {}", signal_name(*s)),
                Exit::Code(c) => format!("child exited with status {c} without a result"),
                Exit::WallTimeout => "child reaped by the wall-clock backstop".to_string(),
            };
            let mut o = Outcome::default();
            if *exit == Exit::WallTimeout && !scn.has_subprocess() {
                o.harness_error = Some(what.clone());
            } else if scn.crash_is_violation() {
                let oracle = match exit {
                    Exit::Signal(libc::SIGXCPU) | Exit::WallTimeout => "no-hang",
                    Exit::Signal(libc::SIGSEGV) | Exit::Signal(libc::SIGBUS) => "no-stack-exhaustion",
                    _ => "no-abort",
                };
                o.violate(oracle, what.clone());
            } else {
                o.inconclusive.push(what.clone());
            }
            RunResult { outcome: o, crash: Some(what) }
        }
    }
}

pub fn run_seed(base: u64, scn: &dyn Scenario, idx: u64) -> u64 {
    let mut x = mix(base, mix(fnv1a(scn.property().as_bytes()), fnv1a(scn.name().as_bytes()))) ^ idx;
    splitmix64(&mut x)
}

#[derive(Clone, Debug, Default, Serialize, Deserialize)]
pub struct WorkerSummary {
    pub runs: u64,
    pub counters: BTreeMap<String, u64>,
    pub sigs: Vec<u64>,
    pub steps: u64,
    pub samples: Vec<Value>,
    pub failures: Vec<Failure>,
    pub inconclusive: Vec<(u64, String)>,
    pub harness_errors: Vec<String>,
    pub canary_checked: u64,
    pub canary_mismatch: Vec<u64>,
    pub stopped_early: bool,
}

#[derive(Clone, Debug, Serialize, Deserialize)]
pub struct Failure {
    pub idx: u64,
    pub seed: u64,
    pub plan: Value,
    pub violations: Vec<Violation>,
}

fn with_schedule(plan: &Value, schedule: &[u8]) -> Value {
    let mut p = plan.clone();
    if let Some(obj) = p.as_object_mut() {
        if !schedule.is_empty() {
            obj.insert("schedule".into(), json!(schedule));
        }
    }
    p
}

fn account(sum: &mut WorkerSummary, sigset: &mut BTreeSet<u64>, idx: u64, seed: u64, plan: &Value, rr: &RunResult) {
    sum.runs += 1;
    sum.steps += rr.outcome.steps;
    for (k, v) in &rr.outcome.counters {
        *sum.counters.entry(k.clone()).or_insert(0) += v;
    }
    for s in &rr.outcome.sigs {
        sigset.insert(*s);
    }
    if let Some(h) = &rr.outcome.harness_error {
        sum.harness_errors.push(format!("run {idx} seed {seed}: {h}"));
    }
    for i in &rr.outcome.inconclusive {
        if sum.inconclusive.len() < 50 {
            sum.inconclusive.push((idx, i.clone()));
        }
        *sum.counters.entry("inconclusive_runs".into()).or_insert(0) += 1;
    }
    if !rr.outcome.violations.is_empty() {
        *sum.counters.entry("violating_runs".into()).or_insert(0) += 1;
        if sum.failures.len() < 40 {
            sum.failures.push(Failure {
                idx,
                seed,
                plan: with_schedule(plan, &rr.outcome.schedule),
                violations: rr.outcome.violations.clone(),
            });
        }
    }
    if let Some(s) = &rr.outcome.sample {
        if sum.samples.len() < 3 {
            sum.samples.push(s.clone());
        }
    }
}

/// Worker: single-threaded, never calls the SUT itself.
pub fn worker(scn: &dyn Scenario, tier: Tier, base_seed: u64, wid: u64, nworkers: u64, deadline_s: u64, out_path: &str) {
    let env = Env::detect();
    let total = scn.runs(tier);
    let start = Instant::now();
    let mut sum = WorkerSummary::default();
    let mut sigset: BTreeSet<u64> = BTreeSet::new();
    let mut idx = wid;
    // DSIM_SWEEP=1 (seeded/sweep.sh only; registered commands never set it): the question is
    // merely WHETHER the check fires, so a worker stops after its third run with a violation that
    // is not a known finding
    let sweep = std::env::var("DSIM_SWEEP").is_ok();
    let known = KnownFindings::load(&env.verif);
    while idx < total {
        if start.elapsed().as_secs() > deadline_s {
            sum.stopped_early = true;
            break;
        }
        if sweep && sum.failures.iter().filter(|f| f.violations.iter().any(|v| known.lookup(scn.property(), &scn.finding_key(&f.plan, v)).is_none())).count() >= 3 {
            sum.stopped_early = true;
            break;
        }
        let seed = run_seed(base_seed, scn, idx);
        let plan = scn.plan(seed, idx, tier, &env);
        let rr = run_plan(scn, &plan, &env);
        account(&mut sum, &mut sigset, idx, seed, &plan, &rr);
        let follow = scn.followups(&plan, &rr.outcome);
        *sum.counters.entry("followup_plans".into()).or_insert(0) += follow.len() as u64;
        for (k, fp) in follow.iter().enumerate() {
            if start.elapsed().as_secs() > deadline_s {
                sum.stopped_early = true;
                break;
            }
            let fr = run_plan(scn, fp, &env);
            account(&mut sum, &mut sigset, idx, seed, fp, &fr);
            if (idx + k as u64) % 211 == 5 && fr.crash.is_none() {
                let fr2 = run_plan(scn, fp, &env);
                sum.canary_checked += 1;
                if fr2.outcome.log_hash != fr.outcome.log_hash {
                    sum.canary_mismatch.push(idx);
                }
            }
        }
        // determinism canary: re-execute ~1% of the runs and compare log hashes
        // (runs in which the watchdog had to pass the baton on are not exactly repeatable)
        if idx % 97 == 3 && rr.crash.is_none() && rr.outcome.counters.get("forced_handoffs").copied().unwrap_or(0) == 0 {
            let plan2 = scn.plan(seed, idx, tier, &env);
            let rr2 = run_plan(scn, &plan2, &env);
            sum.canary_checked += 1;
            if plan2 != plan || (rr2.outcome.log_hash != rr.outcome.log_hash && rr2.outcome.counters.get("forced_handoffs").copied().unwrap_or(0) == 0) {
                sum.canary_mismatch.push(idx);
            }
        }
        idx += nworkers;
    }
    sum.sigs = sigset.into_iter().collect();
    std::fs::write(out_path, serde_json::to_vec(&sum).unwrap()).expect("write worker summary");
}

pub struct KnownFindings {
    pub findings: Vec<(String, String, String)>, // property, key, text
}

impl KnownFindings {
    pub fn load(verif: &str) -> KnownFindings {
        let mut findings = vec![];
        if let Ok(t) = std::fs::read_to_string(format!("{verif}/known_findings.txt")) {
            for line in t.lines() {
                let line = line.trim();
                if let Some(rest) = line.strip_prefix("finding:") {
                    let mut prop = String::new();
                    let mut key = String::new();
                    let mut text = vec![];
                    for tok in rest.split_whitespace() {
                        if let Some(p) = tok.strip_prefix("property=") {
                            prop = p.to_string();
                        } else if let Some(k) = tok.strip_prefix("key=") {
                            key = k.to_string();
                        } else {
                            text.push(tok);
                        }
                    }
                    findings.push((prop, key, text.join(" ")));
                }
            }
        }
        KnownFindings { findings }
    }
    pub fn lookup(&self, prop: &str, key: &str) -> Option<&str> {
        self.findings
            .iter()
            .find(|(p, k, _)| p == prop && k == key)
            .map(|(_, _, t)| t.as_str())
    }
}

/// Does `plan` still fail with the same oracle id?
fn still_fails(scn: &dyn Scenario, plan: &Value, oracle: &str, env: &Env) -> Option<RunResult> {
    let rr = run_plan(scn, plan, env);
    if rr.outcome.violations.iter().any(|v| v.oracle == oracle) {
        Some(rr)
    } else {
        None
    }
}

/// Greedy one-step-reduction minimiser (bounded).
pub fn minimise(scn: &dyn Scenario, plan: &Value, oracle: &str, env: &Env, budget_s: u64) -> (Value, u64) {
    let start = Instant::now();
    let mut cur = plan.clone();
    let mut steps = 0u64;
    'outer: loop {
        if start.elapsed().as_secs() > budget_s {
            break;
        }
        for cand in scn.shrink(&cur) {
            if start.elapsed().as_secs() > budget_s {
                break 'outer;
            }
            if cand == cur {
                continue;
            }
            if let Some(rr) = still_fails(scn, &cand, oracle, env) {
                // keep the schedule that was actually taken, so that the file replays it
                cur = if cand.get("schedule").is_some() { cand } else { with_schedule(&cand, &rr.outcome.schedule) };
                steps += 1;
                continue 'outer;
            }
        }
        break;
    }
    (cur, steps)
}

pub struct CheckReport {
    pub violations: u64,
    pub known: u64,
    pub harness_errors: Vec<String>,
}

fn self_exe() -> String {
    std::env::current_exe().unwrap().to_string_lossy().into_owned()
}

/// Driver for one property: run all its scenarios across W worker processes, merge,
/// minimise failures, write evidence, print VIOLATION / KNOWN-FINDING lines.
pub fn check(prop: &str, scenarios: &[&'static dyn Scenario], tier: Tier, level: &str, assumptions: &[&str], components: Value) -> i32 {
    let env = Env::detect();
    let base_seed: u64 = std::env::var("VERIF_SEED").ok().and_then(|s| s.parse().ok()).unwrap_or(1);
    let nworkers: u64 = std::env::var("DSIM_WORKERS").ok().and_then(|s| s.parse().ok()).unwrap_or(16);
    let start = Instant::now();
    let _ = std::fs::create_dir_all(&env.shm);
    let known = KnownFindings::load(&env.verif);
    let mut total_runs = 0u64;
    let mut counters: BTreeMap<String, u64> = BTreeMap::new();
    let mut sigs: BTreeSet<u64> = BTreeSet::new();
    let mut steps = 0u64;
    let mut samples: Vec<Value> = vec![];
    let mut harness_errors: Vec<String> = vec![];
    let mut failures: Vec<(&'static dyn Scenario, Failure)> = vec![];
    let mut inconclusive: Vec<Value> = vec![];
    let mut per_scenario: Vec<Value> = vec![];
    let mut canary = (0u64, 0u64);
    let mut stopped_early = false;
    let deadline = match tier {
        Tier::Quick => 600,
        Tier::Thorough => 5400,
    };

    for scn in scenarios {
        if std::env::var("DSIM_SWEEP").is_ok() && failures.iter().any(|(s, f)| f.violations.iter().any(|v| known.lookup(prop, &s.finding_key(&f.plan, v)).is_none())) {
            break; // sweep mode: one firing scenario answers the question
        }
        let t0 = Instant::now();
        let tmpdir = format!("{}/drv-{}-{}", env.shm, std::process::id(), scn.name());
        let _ = std::fs::create_dir_all(&tmpdir);
        let mut kids = vec![];
        for w in 0..nworkers {
            let out = format!("{tmpdir}/w{w}.json");
            let child = std::process::Command::new(self_exe())
                .args([
                    "worker", scn.property(), scn.name(), tier.name(), &base_seed.to_string(), &w.to_string(),
                    &nworkers.to_string(), &deadline.to_string(), &out,
                ])
                .spawn()
                .expect("spawn worker");
            kids.push((child, out));
        }
        let mut scn_runs = 0u64;
        let mut scn_sigs = 0usize;
        let mut scn_fail = 0usize;
        for (mut child, out) in kids {
            let st = child.wait().expect("wait worker");
            if !st.success() {
                harness_errors.push(format!("worker for {} exited with {st}", scn.name()));
                continue;
            }
            let bytes = std::fs::read(&out).unwrap_or_default();
            let Ok(ws) = serde_json::from_slice::<WorkerSummary>(&bytes) else {
                harness_errors.push(format!("worker summary unreadable: {out}"));
                continue;
            };
            total_runs += ws.runs;
            scn_runs += ws.runs;
            steps += ws.steps;
            for (k, v) in ws.counters {
                *counters.entry(format!("{}.{k}", scn.name())).or_insert(0) += v;
            }
            scn_sigs += ws.sigs.len();
            for s in ws.sigs {
                sigs.insert(mix(s, fnv1a(scn.name().as_bytes())));
            }
            for s in ws.samples {
                if samples.len() < 8 {
                    samples.push(json!({"scenario": scn.name(), "case": s}));
                }
            }
            for h in ws.harness_errors {
                harness_errors.push(h);
            }
            for (i, what) in ws.inconclusive {
                if inconclusive.len() < 20 {
                    inconclusive.push(json!({"scenario": scn.name(), "run": i, "what": what}));
                }
            }
            canary.0 += ws.canary_checked;
            canary.1 += ws.canary_mismatch.len() as u64;
            for m in ws.canary_mismatch {
                harness_errors.push(format!("determinism canary: {} run {m} gave a different log on re-execution", scn.name()));
            }
            stopped_early |= ws.stopped_early;
            scn_fail += ws.failures.len();
            for f in ws.failures {
                failures.push((*scn, f));
            }
        }
        let _ = std::fs::remove_dir_all(&tmpdir);
        per_scenario.push(json!({
            "scenario": scn.name(), "runs": scn_runs, "distinct_signatures_upper_bound": scn_sigs,
            "failing_runs": scn_fail, "wall_s": t0.elapsed().as_secs_f64(),
        }));
    }

    // ---- report failures: classify, minimise, replay-verify, write replay files ----
    let mut n_viol = 0u64;
    let mut n_known = 0u64;
    let mut reported: BTreeSet<String> = BTreeSet::new();
    let mut known_printed: BTreeSet<String> = BTreeSet::new();
    let mut replays: Vec<Value> = vec![];
    failures.sort_by_key(|(s, f)| (s.name(), f.idx));
    let max_reports = 6;
    for (scn, f) in &failures {
        for v in &f.violations {
            let key = scn.finding_key(&f.plan, v);
            if let Some(text) = known.lookup(prop, &key) {
                n_known += 1;
                if known_printed.insert(key.clone()) {
                    println!("KNOWN-FINDING: property={prop} key={key} {text}");
                }
                continue;
            }
            n_viol += 1;
            let class = format!("{}:{}", scn.name(), key);
            if reported.contains(&class) && reported.len() >= 1 {
                continue; // one replay file per (scenario, oracle) class
            }
            if reported.len() >= max_reports {
                continue;
            }
            reported.insert(class);
            let budget = if std::env::var("DSIM_SWEEP").is_ok() { 0 } else if v.oracle == "no-hang" { 900 } else { 90 };
            let (minplan, msteps) = minimise(*scn, &f.plan, &v.oracle, &env, budget);
            // verify the minimised file in a fresh child; fall back to the original
            let (final_plan, final_v, verified) = match still_fails(*scn, &minplan, &v.oracle, &env) {
                Some(rr) => {
                    let vv = rr.outcome.violations.iter().find(|x| x.oracle == v.oracle).cloned().unwrap();
                    (minplan, vv, true)
                }
                None => (f.plan.clone(), v.clone(), false),
            };
            let _ = std::fs::create_dir_all(format!("{}/replays", env.verif));
            let path = format!("{}/replays/{}-{}-{}-{}.json", env.verif, prop, scn.name(), f.seed, f.idx);
            let doc = json!({
                "property": prop, "scenario": scn.name(), "seed": f.seed, "run_index": f.idx, "base_seed": base_seed,
                "violation": final_v, "minimisation_steps": msteps, "minimised_replay_verified": verified,
                "plan": final_plan,
            });
            std::fs::write(&path, serde_json::to_vec_pretty(&doc).unwrap()).expect("write replay");
            println!("VIOLATION property={prop} replay={path}");
            println!("  scenario={} oracle={} : {}", scn.name(), final_v.oracle, truncate(&final_v.msg, 600));
            replays.push(json!({"path": path, "oracle": final_v.oracle}));
        }
    }

    let wall = start.elapsed().as_secs_f64();
    let nontrivial = sigs.len() as u64;
    let rule = components.get("rule").and_then(|r| r.as_str()).unwrap_or("").to_string();
    let evidence = json!({
        "property_id": prop,
        "tier": tier.name(),
        "seed": base_seed,
        "level": level,
        "wall_s": wall,
        "violations": n_viol,
        "assumptions": assumptions,
        "coverage": {
            "evaluations": total_runs,
            "distinct_nontrivial": nontrivial,
            "rule": rule,
            "samples": samples,
            "simulated_runs": total_runs,
            "runs_per_hour": if wall > 0.0 { (total_runs as f64 / wall * 3600.0) as u64 } else { 0 },
            "seeds_per_hour": if wall > 0.0 { (total_runs as f64 / wall * 3600.0) as u64 } else { 0 },
            "simulated_time": format!("{steps} logical steps (yield points + intercepted calls); the system under test reads no clock, so there is no simulated clock to advance"),
            "logical_steps": steps,
            "counters": counters,
            "per_scenario": per_scenario,
            "determinism_canary": {"reexecuted": canary.0, "mismatches": canary.1},
            "known_findings_reobserved": n_known,
            "inconclusive": inconclusive,
            "replays": replays,
            "stopped_early_on_wall_cap": stopped_early,
            "components": components.get("components").cloned().unwrap_or(Value::Null),
            "workers": nworkers,
        }
    });
    let _ = std::fs::create_dir_all(format!("{}/evidence", env.verif));
    std::fs::write(format!("{}/evidence/{prop}.json", env.verif), serde_json::to_vec_pretty(&evidence).unwrap())
        .expect("write evidence");
    println!(
        "dsim: property={prop} tier={} seed={base_seed} runs={total_runs} distinct_nontrivial={nontrivial} violations={n_viol} known={n_known} wall={wall:.1}s",
        tier.name()
    );
    for h in harness_errors.iter().take(10) {
        eprintln!("HARNESS-ERROR: {h}");
    }
    // a violation with its replay file stands on its own (it is re-run in a fresh process before
    // it is reported); a harness error next to it — typically the determinism canary tripping over
    // the very nondeterminism a change introduced — is printed but does not turn exit 1 into exit 2
    if n_viol > 0 {
        1
    } else if !harness_errors.is_empty() {
        2
    } else {
        0
    }
}

pub fn truncate(s: &str, n: usize) -> String {
    if s.len() <= n {
        s.to_string()
    } else {
        let mut end = n;
        while !s.is_char_boundary(end) {
            end -= 1;
        }
        format!("{}…[{} more bytes]", &s[..end], s.len() - end)
    }
}

/// Replay a file in a fresh process image: exit 1 and print the violation if it reproduces.
pub fn replay(path: &str, scenarios: &[&'static dyn Scenario]) -> i32 {
    let env = Env::detect();
    let _ = std::fs::create_dir_all(&env.shm);
    let doc: Value = match std::fs::read(path).ok().and_then(|b| serde_json::from_slice(&b).ok()) {
        Some(d) => d,
        None => {
            eprintln!("cannot read replay file {path}");
            return 2;
        }
    };
    let name = doc["scenario"].as_str().unwrap_or("");
    let prop = doc["property"].as_str().unwrap_or("");
    let Some(scn) = scenarios.iter().find(|s| s.name() == name && s.property() == prop) else {
        eprintln!("unknown scenario {name}");
        return 2;
    };
    let rr = run_plan(*scn, &doc["plan"], &env);
    if let Some(h) = rr.outcome.harness_error {
        eprintln!("HARNESS-ERROR: {h}");
        return 2;
    }
    if rr.outcome.violations.is_empty() {
        println!("replay: no violation (property held on this plan)");
        for i in rr.outcome.inconclusive {
            println!("  inconclusive: {i}");
        }
        0
    } else {
        for v in &rr.outcome.violations {
            println!("VIOLATION property={prop} replay={path}");
            println!("  scenario={name} oracle={} : {}", v.oracle, truncate(&v.msg, 2000));
        }
        1
    }
}

// ------------------------------------------------------------------ determinism self-test

/// worker: for idx ≡ wid (mod nworkers), idx < n: plan twice, run twice, write "idx h1 h2 planeq"
pub fn selftest_worker(scn: &dyn Scenario, base_seed: u64, wid: u64, nworkers: u64, n: u64, out_path: &str) {
    let env = Env::detect();
    let mut lines = String::new();
    let mut idx = wid;
    while idx < n {
        let seed = run_seed(base_seed, scn, idx);
        let p1 = scn.plan(seed, idx, Tier::Quick, &env);
        let p2 = scn.plan(seed, idx, Tier::Quick, &env);
        let r1 = run_plan(scn, &p1, &env);
        let r2 = run_plan(scn, &p2, &env);
        let digest = |r: &RunResult| {
            fnv1a(format!("{}|{:?}|{:?}|{:?}|{:?}", r.outcome.log_hash, r.outcome.violations, r.outcome.counters, r.outcome.schedule, r.crash).as_bytes())
        };
        if digest(&r1) != digest(&r2) {
            let _ = std::fs::write(
                format!("/dev/shm/dsim/selftest-mismatch-{}-{}-{idx}.json", scn.property(), scn.name()),
                serde_json::to_vec(&json!({"first": r1.outcome, "second": r2.outcome, "crash": [r1.crash, r2.crash]})).unwrap(),
            );
        }
        lines.push_str(&format!("{idx} {} {} {}\n", digest(&r1), digest(&r2), (p1 == p2) as u8));
        idx += nworkers;
    }
    std::fs::write(out_path, lines).expect("write selftest output");
}

/// driver: every scenario of `scenarios`, `n` seeds, each executed twice, at several worker
/// counts; all digests must agree (twice-run and across worker counts).
pub fn selftest(scenarios: &[&'static dyn Scenario], n: u64) -> i32 {
    let env = Env::detect();
    let base_seed: u64 = std::env::var("VERIF_SEED").ok().and_then(|s| s.parse().ok()).unwrap_or(1);
    let _ = std::fs::create_dir_all(&env.shm);
    let mut bad = 0u64;
    let mut total = 0u64;
    for scn in scenarios {
        let mut by_w: Vec<BTreeMap<u64, u64>> = vec![];
        for (w, count) in [(16u64, n), (4u64, n / 4), (1u64, n / 16)] {
            let tmpdir = format!("{}/st-{}-{}-{w}", env.shm, std::process::id(), scn.name());
            let _ = std::fs::create_dir_all(&tmpdir);
            let mut kids = vec![];
            for wid in 0..w {
                let out = format!("{tmpdir}/w{wid}.txt");
                let child = std::process::Command::new(self_exe())
                    .args(["selftest-worker", scn.property(), scn.name(), &base_seed.to_string(), &wid.to_string(), &w.to_string(), &count.max(1).to_string(), &out])
                    .spawn()
                    .expect("spawn selftest worker");
                kids.push((child, out));
            }
            let mut map = BTreeMap::new();
            for (mut c, out) in kids {
                let _ = c.wait();
                for line in std::fs::read_to_string(&out).unwrap_or_default().lines() {
                    let f: Vec<&str> = line.split(' ').collect();
                    if f.len() == 4 {
                        let idx: u64 = f[0].parse().unwrap_or(0);
                        total += 1;
                        if f[1] != f[2] || f[3] != "1" {
                            bad += 1;
                            println!("NONDETERMINISM {} {} idx {idx} at W={w}: {} vs {} (plans equal: {})", scn.property(), scn.name(), f[1], f[2], f[3]);
                        }
                        map.insert(idx, f[1].parse::<u64>().unwrap_or(0));
                    }
                }
            }
            let _ = std::fs::remove_dir_all(&tmpdir);
            by_w.push(map);
        }
        for m in &by_w[1..] {
            for (idx, h) in m {
                if by_w[0].get(idx).is_some_and(|h0| h0 != h) {
                    bad += 1;
                    println!("NONDETERMINISM {} {} idx {idx}: digest differs between worker counts", scn.property(), scn.name());
                }
            }
        }
        println!("selftest {} {}: {} seeds at W=16, {} at W=4, {} at W=1, each executed twice", scn.property(), scn.name(), by_w[0].len(), by_w[1].len(), by_w[2].len());
    }
    println!("selftest: {total} double executions, {bad} mismatches");
    if bad > 0 {
        2
    } else {
        0
    }
}
