//! Workload generator (DESIGN §3): module sets in the supported notation, together with
//! a model — for every assignment its name, kind, text and the names it references; for
//! every module its defaults and IMPORTS. Everything is drawn from the given PRNG.
//!
//! The target is notation the compiler accepts WITHOUT warnings on the unchanged tree;
//! scenarios measure the yield and report it as a reach probe.

use crate::rng::{mix, Rng};
use serde::{Deserialize, Serialize};
use std::collections::{BTreeMap, BTreeSet};

#[derive(Clone, Debug, Serialize, Deserialize, PartialEq)]
pub enum AKind {
    Type,
    Value,
    /// information object class (documented as producing no output)
    Class,
    /// parameterized type template (documented as producing no output)
    Param,
}

#[derive(Clone, Debug, Serialize, Deserialize, PartialEq)]
pub struct Assign {
    pub name: String,
    pub kind: AKind,
    /// full text of the assignment, no leading/trailing blank lines
    pub text: String,
    /// top-level names referenced (types, values), local or imported; `Mod.Name` for qualified
    pub refs: Vec<String>,
    /// comment block emitted before the assignment (may be empty)
    pub comment: String,
}

#[derive(Clone, Debug, Serialize, Deserialize, PartialEq)]
pub struct Import {
    pub from: String,
    pub symbols: Vec<String>,
    pub with_oid: bool,
    /// module reference written in the FROM clause when it differs from the exporter's real name
    /// (X.680 allows that when the object identifier says which module is meant); only rendered
    /// together with the identifier
    #[serde(default)]
    pub alias: Option<String>,
}

#[derive(Clone, Debug, Serialize, Deserialize, PartialEq)]
pub struct Module {
    pub name: String,
    pub oid: Option<String>,
    /// "EXPLICIT" | "IMPLICIT" | "AUTOMATIC" | "" (absent)
    pub tags: String,
    pub ext_implied: bool,
    pub exports_all: bool,
    pub imports: Vec<Import>,
    pub assigns: Vec<Assign>,
    pub crlf: bool,
    pub indent: String,
}

#[derive(Clone, Debug, Serialize, Deserialize, PartialEq, Default)]
pub struct ModuleSet {
    pub modules: Vec<Module>,
}

#[derive(Clone, Debug, Default)]
pub struct Span {
    pub start: usize,
    pub end: usize,
}

#[derive(Clone, Debug, Default)]
pub struct Rendered {
    pub text: String,
    /// span of the header (module name .. BEGIN + EXPORTS/IMPORTS)
    pub header: Span,
    /// span of each assignment's own text (without its leading comment)
    pub assigns: Vec<Span>,
    /// span of each assignment including its leading comment/blank lines (from the end of the previous unit)
    pub assigns_wide: Vec<Span>,
    pub end_kw: Span,
}

impl Module {
    pub fn nl(&self) -> &'static str {
        if self.crlf {
            "\r\n"
        } else {
            "\n"
        }
    }

    pub fn header_text(&self, all: &[Module]) -> String {
        let nl = self.nl();
        let mut s = String::new();
        s.push_str(&self.name);
        if let Some(o) = &self.oid {
            s.push(' ');
            s.push_str(o);
        }
        s.push_str(nl);
        s.push_str("DEFINITIONS");
        if !self.tags.is_empty() {
            s.push(' ');
            s.push_str(&self.tags);
            s.push_str(" TAGS");
        }
        if self.ext_implied {
            s.push_str(" EXTENSIBILITY IMPLIED");
        }
        s.push_str(" ::=");
        s.push_str(nl);
        s.push_str("BEGIN");
        s.push_str(nl);
        if self.exports_all {
            s.push_str("EXPORTS ALL;");
            s.push_str(nl);
        }
        if !self.imports.is_empty() {
            s.push_str("IMPORTS");
            for imp in &self.imports {
                s.push_str(nl);
                s.push_str(&self.indent);
                s.push_str(&imp.symbols.join(", "));
                s.push_str(" FROM ");
                let oid = if imp.with_oid { all.iter().find(|m| m.name == imp.from).and_then(|m| m.oid.clone()) } else { None };
                match (&imp.alias, &oid) {
                    (Some(alias), Some(_)) => s.push_str(alias),
                    _ => s.push_str(&imp.from),
                }
                if let Some(o) = oid {
                    s.push(' ');
                    s.push_str(&o);
                }
            }
            s.push(';');
            s.push_str(nl);
        }
        s
    }

    pub fn render(&self, all: &[Module]) -> Rendered {
        let nl = self.nl();
        let mut r = Rendered::default();
        r.text = self.header_text(all);
        r.header = Span { start: 0, end: r.text.len() };
        let mut prev_end = r.text.len();
        for a in &self.assigns {
            r.text.push_str(nl);
            if !a.comment.is_empty() {
                r.text.push_str(&a.comment.replace('\n', nl));
                // a closed `-- .. --` comment with two trailing blanks leads the assignment's own line
                if !a.comment.ends_with("--  ") {
                    r.text.push_str(nl);
                }
            }
            let start = r.text.len();
            r.text.push_str(&a.text.replace('\n', nl));
            let end = r.text.len();
            r.text.push_str(nl);
            r.assigns.push(Span { start, end });
            r.assigns_wide.push(Span { start: prev_end, end });
            prev_end = end;
        }
        r.text.push_str(nl);
        let s = r.text.len();
        r.text.push_str("END");
        r.end_kw = Span { start: s, end: s + 3 };
        r.text.push_str(nl);
        r
    }

    pub fn text(&self, all: &[Module]) -> String {
        self.render(all).text
    }

    /// modules this module depends on: IMPORTS clauses and module-qualified references
    pub fn deps(&self) -> BTreeSet<String> {
        let mut d: BTreeSet<String> = self.imports.iter().map(|i| i.from.clone()).collect();
        for a in &self.assigns {
            for r in &a.refs {
                if let Some((m, _)) = r.split_once('.') {
                    d.insert(m.to_string());
                }
            }
        }
        d
    }
}

impl ModuleSet {
    pub fn texts(&self) -> Vec<String> {
        self.modules.iter().map(|m| m.text(&self.modules)).collect()
    }
    pub fn concat(&self) -> String {
        self.texts().join("\n")
    }
    pub fn get(&self, name: &str) -> Option<&Module> {
        self.modules.iter().find(|m| m.name == name)
    }
    /// transitive dependency cone of a module (including itself)
    pub fn cone(&self, name: &str) -> BTreeSet<String> {
        let mut seen = BTreeSet::new();
        let mut todo = vec![name.to_string()];
        while let Some(n) = todo.pop() {
            if !seen.insert(n.clone()) {
                continue;
            }
            if let Some(m) = self.get(&n) {
                for d in m.deps() {
                    todo.push(d);
                }
            }
        }
        seen
    }
    /// The set without assignment `ai` of module `mi`, if that keeps the set well-formed:
    /// nothing may still refer to it (locally, through IMPORTS or module-qualified) and no
    /// module may become empty.
    pub fn without_assign(&self, mi: usize, ai: usize) -> Option<ModuleSet> {
        let m = &self.modules[mi];
        if m.assigns.len() <= 1 {
            return None;
        }
        let name = &m.assigns[ai].name;
        let qualified = format!("{}.{}", m.name, name);
        for (mj, other) in self.modules.iter().enumerate() {
            for (aj, a) in other.assigns.iter().enumerate() {
                if mj == mi && aj == ai {
                    continue;
                }
                if a.refs.iter().any(|r| r == &qualified || (mj == mi && r == name)) {
                    return None;
                }
                // a bare reference from another module goes through its IMPORTS
            }
            if mj != mi && other.imports.iter().any(|i| i.from == m.name && i.symbols.contains(name)) {
                return None;
            }
        }
        let mut s = self.clone();
        s.modules[mi].assigns.remove(ai);
        Some(s)
    }
    pub fn n_assigns(&self) -> usize {
        self.modules.iter().map(|m| m.assigns.len()).sum()
    }
}

// ---------------------------------------------------------------- generation

#[derive(Clone, Debug)]
pub struct GenCfg {
    pub modules: (usize, usize),
    pub assigns: (usize, usize),
    pub max_depth: usize,
    pub imports: bool,
    pub values: bool,
    pub comments: bool,
    pub crlf: bool,
    /// reuse one bare top-level name in two modules (finding F1)
    pub xmod_same_name: bool,
    /// reuse an enumeral / named number spelling across modules (finding F5)
    pub xmod_same_enumeral: bool,
    /// allow cyclic import graphs
    pub cyclic_imports: bool,
    /// two ENUMERATED types of ONE module may share an enumeral (resolved by a first-match scan
    /// in key order on the unchanged tree: deterministic, so fair game for C11; never shared
    /// across modules, that is finding F5)
    pub intra_shared_enumerals: bool,
    /// prefer value assignments governed by named (local or imported) types, and prefer
    /// imported values as constraint bounds: exercises the linker's associated-type imports
    pub value_import_bias: bool,
    /// modules may define an information object class and a parameterized type, and other
    /// modules may import them (the import clause then legitimately becomes a wildcard use)
    pub classes: bool,
    /// REAL as a component type (supported as f64; a top-level REAL is not)
    pub real_components: bool,
    /// a module may define a top-level type whose name equals the name the backend derives for
    /// an anonymous inner type of ANOTHER module (Cell + field id -> CellId)
    pub echo_inner_names: bool,
    /// more deliberate (direct and mutual) recursion through OPTIONAL members
    pub recursion_bias: bool,
    /// append definitions that compile with WARNINGS (top-level REAL, inverted range, dangling
    /// references, SEQUENCE OF values whose element type is missing, unresolvable selection
    /// types): C11 compares the multiset of warnings too
    pub warnful: bool,
    /// SEQUENCE types may inherit members with COMPONENTS OF from other local SEQUENCE types
    pub components_of: bool,
    /// values whose governing type is not a plain type: a class field (`v CLASS.&id ::= 5`) and a
    /// selection type (`v alt < Choice ::= 7`)
    pub odd_governors: bool,
    /// an IMPORTS clause that carries the exporter's object identifier may name the module by
    /// another module reference than its real one
    pub import_alias: bool,
}

impl GenCfg {
    pub fn default_cfg() -> GenCfg {
        GenCfg {
            modules: (1, 4),
            assigns: (1, 14),
            max_depth: 3,
            imports: true,
            values: true,
            comments: true,
            crlf: true,
            xmod_same_name: false,
            xmod_same_enumeral: false,
            cyclic_imports: true,
            intra_shared_enumerals: false,
            value_import_bias: false,
            classes: false,
            real_components: false,
            echo_inner_names: false,
            recursion_bias: false,
            warnful: false,
            odd_governors: false,
            import_alias: false,
            components_of: false,
        }
    }
}

#[derive(Clone, Debug)]
struct TypeInfo {
    name: String,
    /// "int" | "enum" | "bool" | "bits" | "octets" | "str" | "seq" | "choice" | "of" | "oid" | "null" | "time" | "alias"
    cat: &'static str,
    enumerals: Vec<String>,
    named_bits: Vec<String>,
    /// integer range if constrained by literals
    range: Option<(i64, i64)>,
}

#[derive(Clone, Debug)]
struct ValueInfo {
    name: String,
    /// "int"
    cat: &'static str,
    int: i64,
}

struct ModCtx {
    idx: usize,
    stem: String,
    type_names: Vec<String>,
    types: Vec<TypeInfo>,
    values: Vec<ValueInfo>,
    /// imported (module, symbol)
    imported_types: Vec<(String, TypeInfo)>,
    imported_values: Vec<(String, ValueInfo)>,
    used_imports: BTreeMap<String, BTreeSet<String>>,
    qualified_ok: Vec<(String, TypeInfo)>,
    ident_counter: usize,
    enum_counter: usize,
    shared_enumeral: Option<String>,
    /// global acyclicity order: a mandatory reference may only go to a type of greater rank
    ranks: BTreeMap<String, usize>,
    modname: String,
}

const STEMS: [&str; 8] = ["Alpha", "Bravo", "Carol", "Delta", "Echo9", "Fox-t", "Golf", "Hotel"];
const COMP_IDENTS: [&str; 24] = [
    "id", "value", "type", "match", "len-x", "item2", "self1", "data", "kind", "ref", "loop", "flagA", "aB9c", "name",
    "use", "mod", "count", "b64", "inner", "opt-f", "x", "y", "z", "abstract",
];
const STR_TYPES: [&str; 10] = [
    "UTF8String", "IA5String", "PrintableString", "NumericString", "VisibleString", "BMPString", "UniversalString",
    "TeletexString", "GeneralString", "GraphicString",
];

struct G<'a> {
    rng: &'a mut Rng,
    cfg: &'a GenCfg,
}

impl<'a> G<'a> {
    fn comp_ident(&mut self, used: &mut BTreeSet<String>) -> String {
        for _ in 0..20 {
            let base = *self.rng.pick(&COMP_IDENTS);
            let cand = if self.rng.chance(1, 3) { format!("{base}{}", self.rng.below(9)) } else { base.to_string() };
            // avoid identifiers that differ only by hyphen/case (they would collide after mangling)
            let key = cand.replace('-', "").to_lowercase();
            if used.insert(key) {
                return cand;
            }
        }
        let n = used.len();
        used.insert(format!("fld{n}"));
        format!("fld{n}")
    }

    fn enumeral(&mut self, m: &mut ModCtx) -> String {
        m.enum_counter += 1;
        let words = ["red", "up", "low-b", "item", "q", "type", "east", "on"];
        format!("{}{}{}", self.rng.pick(&words), m.stem.to_lowercase().replace('-', ""), m.enum_counter)
    }

    fn int_constraint(&mut self, m: &mut ModCtx, refs: &mut Vec<String>) -> (String, Option<(i64, i64)>) {
        let ext = if self.rng.chance(1, 4) { ", ..." } else { "" };
        let biased = self.cfg.value_import_bias && m.imported_values.iter().any(|(_, v)| v.cat == "int") && self.rng.chance(3, 4);
        match if biased { 7 } else { self.rng.below(8) } {
            0 => {
                let v = self.rng.range(-100, 1000);
                (format!("({v}{ext})"), Some((v, v)))
            }
            1 | 2 | 3 => {
                let lo = *self.rng.pick(&[0i64, 1, -1, -128, 0, 0, -32768, 100, -2147483648]);
                let span = *self.rng.pick(&[1i64, 7, 255, 256, 65535, 65536, 4294967295, 4294967296, 3, 100000]);
                let hi = lo + span;
                (format!("({lo}..{hi}{ext})"), Some((lo, hi)))
            }
            4 => {
                let hi = self.rng.range(0, 70000);
                (format!("(MIN..{hi}{ext})"), None)
            }
            5 => {
                let lo = self.rng.range(-300, 300);
                (format!("({lo}..MAX{ext})"), None)
            }
            _ => {
                // value references as bounds (local or imported)
                let mut cands: Vec<ValueInfo> = m.values.iter().filter(|v| v.cat == "int").cloned().collect();
                let imported: Vec<(String, ValueInfo)> =
                    m.imported_values.iter().filter(|(_, v)| v.cat == "int").cloned().collect();
                if cands.is_empty() && imported.is_empty() {
                    let lo = self.rng.range(0, 5);
                    let hi = lo + self.rng.range(1, 500);
                    return (format!("({lo}..{hi}{ext})"), Some((lo, hi)));
                }
                let use_imported = !imported.is_empty() && (cands.is_empty() || biased || self.rng.chance(1, 2));
                let v = if use_imported {
                    let (from, v) = self.rng.pick(&imported).clone();
                    m.used_imports.entry(from).or_default().insert(v.name.clone());
                    v
                } else {
                    self.rng.pick(&cands).clone()
                };
                cands.clear();
                refs.push(v.name.clone());
                let lo = v.int - self.rng.range(1, 50);
                (format!("({lo}..{}{ext})", v.name), Some((lo, v.int)))
            }
        }
    }

    fn size_constraint(&mut self) -> String {
        let ext = if self.rng.chance(1, 4) { ", ..." } else { "" };
        if self.rng.chance(1, 3) {
            format!("(SIZE({}{ext}))", self.rng.range(1, 64))
        } else {
            let lo = self.rng.range(0, 8);
            let hi = lo + self.rng.range(1, 300);
            format!("(SIZE({lo}..{hi}{ext}))")
        }
    }

    fn tag(&mut self) -> String {
        if !self.rng.chance(1, 4) {
            return String::new();
        }
        let class = *self.rng.pick(&["", "", "", "APPLICATION ", "PRIVATE "]);
        let n = self.rng.range(0, 40);
        let kw = *self.rng.pick(&["", "", " IMPLICIT", " EXPLICIT"]);
        format!("[{class}{n}]{kw} ")
    }

    /// a type usable anywhere; returns (text, category info)
    fn gen_type(&mut self, m: &mut ModCtx, depth: usize, owner: &str, refs: &mut Vec<String>) -> (String, TypeInfo) {
        let mut info = TypeInfo { name: String::new(), cat: "null", enumerals: vec![], named_bits: vec![], range: None };
        let structured_ok = depth < self.cfg.max_depth;
        let w_struct = if structured_ok { 5 } else { 0 };
        let choice = self.rng.weighted(&[
            2,        // 0 BOOLEAN
            1,        // 1 NULL
            5,        // 2 INTEGER
            3,        // 3 ENUMERATED
            2,        // 4 BIT STRING
            2,        // 5 OCTET STRING
            3,        // 6 char strings
            1,        // 7 OID
            1,        // 8 times
            w_struct, // 9 SEQUENCE / SET
            w_struct / 2 + (structured_ok as u32), // 10 CHOICE
            w_struct / 2 + (structured_ok as u32), // 11 SEQUENCE OF / SET OF
            6,        // 12 reference
            (self.cfg.real_components && depth >= 1) as u32, // 13 REAL (component only)
        ]);
        let text = match choice {
            0 => {
                info.cat = "bool";
                "BOOLEAN".to_string()
            }
            1 => "NULL".to_string(),
            2 => {
                info.cat = "int";
                let mut s = "INTEGER".to_string();
                if self.rng.chance(1, 5) {
                    let mut items = vec![];
                    for k in 0..self.rng.range(1, 3) {
                        let nm = if k == 0 && m.shared_enumeral.is_some() && self.cfg.xmod_same_enumeral {
                            m.shared_enumeral.clone().unwrap()
                        } else {
                            self.enumeral(m)
                        };
                        items.push(format!("{nm}({})", self.rng.range(0, 20) + k * 20));
                    }
                    s.push_str(&format!(" {{ {} }}", items.join(", ")));
                }
                if self.rng.chance(2, 3) {
                    let (c, r) = self.int_constraint(m, refs);
                    info.range = r;
                    s.push(' ');
                    s.push_str(&c);
                    // serial application of a second, narrower constraint
                    if let Some((lo, hi)) = r {
                        if hi - lo >= 4 && self.rng.chance(1, 8) {
                            let (lo2, hi2) = (lo + 1, hi - 1);
                            s.push_str(&format!(" ({lo2}..{hi2})"));
                            info.range = Some((lo2, hi2));
                        }
                    }
                }
                s
            }
            3 => {
                info.cat = "enum";
                let n = self.rng.range(1, 5) as usize;
                let mut items = vec![];
                for k in 0..n {
                    let earlier: Vec<String> = m.types.iter().filter(|t| t.cat == "enum").flat_map(|t| t.enumerals.iter().cloned()).filter(|e| !info.enumerals.contains(e)).collect();
                    let e = if k == 0 && m.shared_enumeral.is_some() && self.cfg.xmod_same_enumeral {
                        m.shared_enumeral.clone().unwrap()
                    } else if self.cfg.intra_shared_enumerals && !earlier.is_empty() && self.rng.chance(1, 3) {
                        self.rng.pick(&earlier).clone()
                    } else {
                        self.enumeral(m)
                    };
                    info.enumerals.push(e.clone());
                    if self.rng.chance(1, 5) {
                        let num = if self.rng.chance(1, 4) { -(20 - k as i64 * 3) } else { 10 + k as i64 * 3 };
                        items.push(format!("{e}({num})"));
                    } else {
                        items.push(e);
                    }
                }
                let mut s = format!("ENUMERATED {{ {}", items.join(", "));
                if self.rng.chance(1, 3) {
                    s.push_str(", ...");
                    if self.rng.chance(1, 2) {
                        let e = self.enumeral(m);
                        info.enumerals.push(e.clone());
                        s.push_str(&format!(", {e}"));
                    }
                }
                s.push_str(" }");
                s
            }
            4 => {
                info.cat = "bits";
                let mut s = "BIT STRING".to_string();
                if self.rng.chance(1, 3) {
                    let n = self.rng.range(1, 4) as usize;
                    let mut items = vec![];
                    for k in 0..n {
                        let e = self.enumeral(m);
                        info.named_bits.push(e.clone());
                        items.push(format!("{e}({k})"));
                    }
                    s.push_str(&format!(" {{ {} }}", items.join(", ")));
                }
                if self.rng.chance(1, 2) {
                    s.push(' ');
                    s.push_str(&self.size_constraint());
                }
                s
            }
            5 => {
                info.cat = "octets";
                let mut s = "OCTET STRING".to_string();
                if self.rng.chance(1, 2) {
                    s.push(' ');
                    s.push_str(&self.size_constraint());
                }
                s
            }
            6 => {
                info.cat = "str";
                let mut s = self.rng.pick(&STR_TYPES).to_string();
                if self.rng.chance(1, 2) {
                    s.push(' ');
                    s.push_str(&self.size_constraint());
                } else if self.rng.chance(1, 4) {
                    // permitted alphabets, for the multi-octet string types with characters beyond
                    // ASCII (BMPString) and beyond the basic plane (UniversalString, UTF8String)
                    match s.as_str() {
                        "IA5String" | "PrintableString" | "VisibleString" => s.push_str(" (FROM (\"a\"..\"z\"))"),
                        "BMPString" => s.push_str(" (FROM (\"a\"..\"f\" | \"\u{e4}\"))"),
                        // (a character beyond the basic plane in a UniversalString alphabet makes the unchanged
                        // compiler print its whole 900 KB character table into a warning; far too heavy for
                        // a workload that runs thousands of times, so the alphabet stays inside the plane)
                        "UniversalString" => s.push_str(" (FROM (\"a\"..\"z\" | \"\u{20ac}\"))"),
                        "UTF8String" => s.push_str(" (FROM (\"\u{1f600}\" | \"x\"))"),
                        _ => {}
                    }
                }
                s
            }
            7 => {
                info.cat = "oid";
                "OBJECT IDENTIFIER".to_string()
            }
            8 => {
                info.cat = "time";
                self.rng.pick(&["GeneralizedTime", "UTCTime"]).to_string()
            }
            9 => {
                info.cat = "seq";
                self.gen_struct(m, depth, owner, refs)
            }
            10 => {
                info.cat = "choice";
                self.gen_choice(m, depth, owner, refs)
            }
            11 => {
                info.cat = "of";
                let kw = *self.rng.pick(&["SEQUENCE", "SET"]);
                let size = if self.rng.chance(1, 3) { format!(" {}", self.size_constraint()) } else { String::new() };
                let (mut inner, _) = self.gen_type(m, depth + 1, owner, refs);
                if inner == "REAL" {
                    // REAL is supported as a member type, not as the element of SEQUENCE/SET OF
                    inner = "BOOLEAN".to_string();
                }
                format!("{kw}{size} OF {inner}")
            }
            13 => {
                info.cat = "real";
                "REAL".to_string()
            }
            _ => {
                info.cat = "alias";
                return self.gen_ref(m, owner, refs);
            }
        };
        (text, info)
    }

    /// a reference to a local, imported or module-qualified type
    fn gen_ref(&mut self, m: &mut ModCtx, owner: &str, refs: &mut Vec<String>) -> (String, TypeInfo) {
        let which = self.rng.below(10);
        let my_rank = m.ranks.get(&format!("{}.{}", m.modname, owner)).copied().unwrap_or(0);
        let imported_ok: Vec<(String, TypeInfo)> = m
            .imported_types
            .iter()
            .filter(|(from, t)| m.ranks.get(&format!("{from}.{}", t.name)).copied().unwrap_or(0) > my_rank)
            .cloned()
            .collect();
        let qualified_ok: Vec<(String, TypeInfo)> = m
            .qualified_ok
            .iter()
            .filter(|(from, t)| m.ranks.get(&format!("{from}.{}", t.name)).copied().unwrap_or(0) > my_rank)
            .cloned()
            .collect();
        if which < 2 && !imported_ok.is_empty() {
            let (from, ti) = self.rng.pick(&imported_ok).clone();
            m.used_imports.entry(from).or_default().insert(ti.name.clone());
            refs.push(ti.name.clone());
            let mut t = ti.clone();
            t.cat = if ti.cat == "int" || ti.cat == "enum" || ti.cat == "bool" { ti.cat } else { "alias" };
            return (ti.name.clone(), t);
        }
        if which == 2 && !qualified_ok.is_empty() {
            let (from, ti) = self.rng.pick(&qualified_ok).clone();
            refs.push(format!("{from}.{}", ti.name));
            let mut t = ti.clone();
            t.cat = "alias";
            return (format!("{from}.{}", ti.name), t);
        }
        // local reference, forward or backward; never to the owner itself here (recursion is
        // introduced deliberately, through OPTIONAL members / CHOICE alternatives / OF)
        let cands: Vec<String> = m
            .type_names
            .iter()
            .filter(|n| n.as_str() != owner && m.ranks.get(&format!("{}.{n}", m.modname)).copied().unwrap_or(0) > my_rank)
            .cloned()
            .collect();
        if cands.is_empty() {
            return ("BOOLEAN".to_string(), TypeInfo { name: String::new(), cat: "bool", enumerals: vec![], named_bits: vec![], range: None });
        }
        let n = self.rng.pick(&cands).clone();
        refs.push(n.clone());
        let known = m.types.iter().find(|t| t.name == n).cloned();
        let mut ti = known.unwrap_or(TypeInfo { name: n.clone(), cat: "alias", enumerals: vec![], named_bits: vec![], range: None });
        if !(ti.cat == "int" || ti.cat == "enum" || ti.cat == "bool") {
            ti.cat = "alias";
        }
        // occasionally constrain a referenced integer type further
        if ti.cat == "int" && self.rng.chance(1, 6) {
            if let Some((lo, hi)) = ti.range {
                if hi > lo {
                    return (format!("{n} ({lo}..{})", lo + (hi - lo) / 2), ti);
                }
            }
        }
        (n, ti)
    }

    fn default_for(&mut self, m: &mut ModCtx, ti: &TypeInfo, refs: &mut Vec<String>) -> Option<String> {
        match ti.cat {
            "bool" => Some(self.rng.pick(&["TRUE", "FALSE"]).to_string()),
            "int" => {
                if let Some((lo, hi)) = ti.range {
                    let cands: Vec<ValueInfo> =
                        m.values.iter().filter(|v| v.cat == "int" && v.int >= lo && v.int <= hi).cloned().collect();
                    if !cands.is_empty() && self.rng.chance(1, 3) {
                        let v = self.rng.pick(&cands).clone();
                        refs.push(v.name.clone());
                        return Some(v.name);
                    }
                    Some(self.rng.range(lo, hi.min(lo.saturating_add(1000))).to_string())
                } else if ti.name.is_empty() {
                    Some(self.rng.range(0, 100).to_string())
                } else {
                    None
                }
            }
            // DEFAULT on an anonymous ENUMERATED member is "not yet implemented" in the rasn backend
            "enum" if !ti.enumerals.is_empty() && !ti.name.is_empty() => Some(self.rng.pick(&ti.enumerals).clone()),
            _ => None,
        }
    }

    fn gen_struct(&mut self, m: &mut ModCtx, depth: usize, owner: &str, refs: &mut Vec<String>) -> String {
        let kw = if self.rng.chance(1, 4) { "SET" } else { "SEQUENCE" };
        let n = if depth == 0 { self.rng.range(0, 8) } else { self.rng.range(1, 4) } as usize;
        let ext_at = if self.rng.chance(1, 3) { Some(self.rng.below(n + 1)) } else { None };
        let mut used = BTreeSet::new();
        let mut parts: Vec<String> = vec![];
        let mut recursion_done = false;
        let mut any_tag = false;
        let mut all_tag = true;
        let mut comps: Vec<String> = vec![];
        for k in 0..n {
            let id = self.comp_ident(&mut used);
            // deliberate direct recursion: an OPTIONAL member of the owner's own type
            if depth == 0 && !recursion_done && !owner.is_empty() && self.rng.chance(1, if self.cfg.recursion_bias { 3 } else { 12 }) {
                recursion_done = true;
                // the owner itself (direct recursion) or any local type (mutual recursion
                // over the OPTIONAL member when that type refers back)
                let target = if self.rng.chance(1, 2) { owner.to_string() } else { self.rng.pick(&m.type_names).clone() };
                refs.push(target.clone());
                comps.push(format!("{id} {target} OPTIONAL"));
                all_tag = false;
                continue;
            }
            let tag = if kw == "SET" { format!("[{k}] ") } else { self.tag() };
            if tag.is_empty() {
                all_tag = false;
            } else {
                any_tag = true;
            }
            let (t, ti) = self.gen_type(m, depth + 1, owner, refs);
            let mut c = format!("{id} {tag}{t}");
            match self.rng.below(5) {
                0 | 1 => c.push_str(" OPTIONAL"),
                2 => {
                    if let Some(d) = self.default_for(m, &ti, refs) {
                        c.push_str(&format!(" DEFAULT {d}"));
                    }
                }
                _ => {}
            }
            comps.push(c);
        }
        let _ = (any_tag, all_tag);
        if kw == "SEQUENCE" && depth == 0 && self.cfg.components_of {
            let my_rank = m.ranks.get(&format!("{}.{}", m.modname, owner)).copied().unwrap_or(0);
            let bases: Vec<String> = m
                .types
                .iter()
                .filter(|t| t.cat == "seq" && !t.name.is_empty() && t.name != owner && m.ranks.get(&format!("{}.{}", m.modname, t.name)).copied().unwrap_or(0) > my_rank)
                .map(|t| t.name.clone())
                .collect();
            let mut picked: Vec<String> = vec![];
            for b in bases {
                if picked.len() < 3 && self.rng.chance(1, 2) {
                    picked.push(b);
                }
            }
            for b in picked {
                refs.push(b.clone());
                comps.push(format!("COMPONENTS OF {b}"));
            }
        }
        // assemble with extension marker / groups
        let mut i = 0;
        while i < comps.len() {
            if Some(i) == ext_at {
                parts.push("...".to_string());
                // an extension addition group directly after the marker, sometimes
                if kw == "SEQUENCE" && self.rng.chance(1, 3) && i + 1 < comps.len() {
                    let take = 1 + self.rng.below((comps.len() - i).min(2));
                    let grp: Vec<String> = comps[i..i + take].to_vec();
                    parts.push(format!("[[ {} ]]", grp.join(", ")));
                    i += take;
                    continue;
                }
            }
            parts.push(comps[i].clone());
            i += 1;
        }
        if ext_at == Some(comps.len()) {
            parts.push("...".to_string());
        }
        if parts.is_empty() {
            return format!("{kw} {{ }}");
        }
        let sep = format!(",\n{}", "  ".repeat(depth + 1));
        format!("{kw} {{\n{}{}\n{}}}", "  ".repeat(depth + 1), parts.join(&sep), "  ".repeat(depth))
    }

    fn gen_choice(&mut self, m: &mut ModCtx, depth: usize, owner: &str, refs: &mut Vec<String>) -> String {
        let n = self.rng.range(1, 5) as usize;
        let mut used = BTreeSet::new();
        let mut parts = vec![];
        let ext_at = if self.rng.chance(1, 3) { Some(1 + self.rng.below(n)) } else { None };
        let tagged = self.rng.chance(1, 2);
        for k in 0..n {
            if Some(k) == ext_at {
                parts.push("...".to_string());
            }
            let id = self.comp_ident(&mut used);
            let tag = if tagged { format!("[{k}] ") } else { String::new() };
            let (t, _) = self.gen_type(m, depth + 1, owner, refs);
            parts.push(format!("{id} {tag}{t}"));
        }
        if ext_at == Some(n) {
            parts.push("...".to_string());
        }
        let sep = format!(",\n{}", "  ".repeat(depth + 1));
        format!("CHOICE {{\n{}{}\n{}}}", "  ".repeat(depth + 1), parts.join(&sep), "  ".repeat(depth))
    }

    fn comment(&mut self, nlines: usize) -> String {
        let mut out = vec![];
        for k in 0..nlines {
            match self.rng.below(5) {
                0 => out.push("-- a line comment ::= with tokens { } ( ) inside".to_string()),
                1 => out.push("-- paired comment -- ".to_string()),
                // (half of them with the white space a comment may hold besides blanks: vertical tab,
                // form feed, tab, no-break space, also directly behind the line break)
                2 if mix(self.rng.clone().next_u64(), 0xb10c) % 2 == 0 => out.push("/* block comment\n\u{b}with a vertical tab,\n\u{c}a form feed,\n\ta tab and\u{a0}a no-break space\n\u{b}\u{b} over\n\n\u{b}six lines */".to_string()),
                2 => out.push("/* block comment\n   over two lines */".to_string()),
                // a closed comment in front of the assignment, on the assignment's own line
                3 if k + 1 == nlines => out.push("-- lead --  ".to_string()),
                _ => out.push(String::new()),
            }
        }
        out.join("\n")
    }
}

/// A value assignment `v T ::= { .. }` whose governing type is spelled in capitals only reads
/// as an information object of class T (X.681) and is parsed as such; values are therefore
/// only governed by type names that contain a lower-case letter.
fn can_govern_values(name: &str) -> bool {
    name.chars().any(|c| c.is_lowercase())
}

fn oid_for(idx: usize) -> String {
    format!("{{ iso org(3) dsim(999) m{idx}({idx}) }}")
}

/// Generate a module set. Per-module name pools are disjoint (top-level names, enumerals
/// and named numbers) unless a knob of `cfg` deliberately shares one.
pub fn generate(rng: &mut Rng, cfg: &GenCfg) -> ModuleSet {
    let nmods = rng.range(cfg.modules.0 as i64, cfg.modules.1 as i64) as usize;
    let mut stems: Vec<&str> = STEMS.to_vec();
    rng.shuffle(&mut stems);
    let shared_enumeral = if cfg.xmod_same_enumeral { Some("sharedmark".to_string()) } else { None };

    // pass 1: decide names of every module and every assignment (so forward and
    // cross-module references are possible), and the import graph
    struct Pre {
        name: String,
        stem: String,
        type_names: Vec<String>,
        value_names: Vec<String>,
        order: Vec<(bool, usize)>, // (is_type, index)
    }
    let mut pres: Vec<Pre> = vec![];
    for mi in 0..nmods {
        let stem = stems[mi % stems.len()].to_string();
        let name = format!("{}-Mod{}", stem.trim_end_matches(|c: char| c == '-'), mi);
        let n = rng.range(cfg.assigns.0 as i64, cfg.assigns.1 as i64) as usize;
        let mut type_names = vec![];
        let mut value_names = vec![];
        let mut order = vec![];
        for k in 0..n {
            let is_value = cfg.values && k > 0 && rng.chance(1, 4);
            if is_value {
                let vstem = stem.to_lowercase();
                value_names.push(format!("{}-v{}", vstem.trim_end_matches('-'), value_names.len()));
                order.push((false, value_names.len() - 1));
            } else {
                let style = rng.below(6);
                let i = type_names.len();
                let nm = match style {
                    // a name that EXTENDS an earlier name of the module (Ratio / RatioUnit, Cell /
                    // Cell-Id): name-keyed bookkeeping that works on prefixes or substrings trips here
                    4 if !type_names.is_empty() => {
                        let prev: &String = &type_names[rng.below(type_names.len())];
                        let cand = format!("{prev}{}", ["Unit", "X", "-Ext", "s", "0"][rng.below(5)]);
                        if type_names.contains(&cand) { format!("{stem}Z{i}") } else { cand }
                    }
                    // capitals, digits and hyphens only (E164, T1, ID2 are legal type references)
                    5 => format!("{}{}", stem.to_uppercase().trim_end_matches('-'), i + 1),
                    0 => format!("{stem}{i}"),
                    1 => format!("{stem}-Type{i}"),
                    2 => format!("{stem}T{i}x"),
                    _ => format!("{stem}-{i}-Rec"),
                };
                let mut nm = nm.replace("--", "-");
                if type_names.contains(&nm) {
                    nm = format!("{nm}Z{i}");
                }
                type_names.push(nm);
                order.push((true, i));
            }
        }
        pres.push(Pre { name, stem, type_names, value_names, order });
    }
    if cfg.xmod_same_name && nmods >= 2 {
        // the same bare type name in module 0 and module 1
        let shared = "Shared-Name".to_string();
        if !pres[0].type_names.is_empty() && !pres[1].type_names.is_empty() {
            pres[0].type_names[0] = shared.clone();
            pres[1].type_names[0] = shared;
        }
    }

    let mut ranks: BTreeMap<String, usize> = BTreeMap::new();
    {
        let mut all: Vec<String> = vec![];
        for p in &pres {
            for t in &p.type_names {
                all.push(format!("{}.{t}", p.name));
            }
        }
        rng.shuffle(&mut all);
        for (i, k) in all.into_iter().enumerate() {
            ranks.insert(k, i + 1);
        }
    }

    // import graph: for each ordered pair decide whether i imports from j
    let mut import_from: Vec<Vec<usize>> = vec![vec![]; nmods];
    if cfg.imports && nmods > 1 {
        for i in 0..nmods {
            for j in 0..nmods {
                if i == j {
                    continue;
                }
                let allowed = cfg.cyclic_imports || j < i;
                if allowed && rng.chance(2, 5) {
                    import_from[i].push(j);
                }
            }
        }
    }

    // pass 2: generate bodies. Modules are generated in index order; a module may import
    // symbols of any module (names are already fixed); type categories of not-yet-generated
    // modules are unknown and treated as opaque aliases.
    let mut done_types: Vec<Vec<TypeInfo>> = vec![vec![]; nmods];
    let mut done_values: Vec<Vec<ValueInfo>> = vec![vec![]; nmods];
    // value infos are pre-decided so that imported values can be used before generation
    for (mi, p) in pres.iter().enumerate() {
        for vn in &p.value_names {
            done_values[mi].push(ValueInfo { name: vn.clone(), cat: "int", int: rng.range(1, 300) });
        }
    }
    // symbols of classes / parameterized templates each generated module exports (import form)
    let mut class_syms: Vec<Vec<String>> = vec![vec![]; nmods];
    let mut modules: Vec<Module> = vec![];
    for mi in 0..nmods {
        let p = &pres[mi];
        let mut ctx = ModCtx {
            idx: mi,
            stem: p.stem.clone(),
            type_names: p.type_names.clone(),
            types: vec![],
            values: done_values[mi].clone(),
            imported_types: vec![],
            imported_values: vec![],
            used_imports: BTreeMap::new(),
            qualified_ok: vec![],
            ident_counter: 0,
            enum_counter: 0,
            shared_enumeral: shared_enumeral.clone(),
            ranks: ranks.clone(),
            modname: p.name.clone(),
        };
        for &j in &import_from[mi] {
            let from = pres[j].name.clone();
            for tn in &pres[j].type_names {
                if cfg.xmod_same_name && tn == "Shared-Name" {
                    continue;
                }
                let ti = done_types[j].iter().find(|t| &t.name == tn).cloned().unwrap_or(TypeInfo {
                    name: tn.clone(),
                    cat: "alias",
                    enumerals: vec![],
                    named_bits: vec![],
                    range: None,
                });
                ctx.imported_types.push((from.clone(), ti.clone()));
                ctx.qualified_ok.push((from.clone(), ti));
            }
            for v in &done_values[j] {
                ctx.imported_values.push((from.clone(), v.clone()));
            }
        }
        let mut g = G { rng, cfg };
        let mut assigns = vec![];
        for (is_type, i) in p.order.clone() {
            let mut refs = vec![];
            let comment = if cfg.comments && g.rng.chance(1, 4) {
                let nl = 1 + g.rng.below(2);
                g.comment(nl)
            } else {
                String::new()
            };
            if is_type {
                let name = p.type_names[i].clone();
                let tag = g.tag();
                let (t, mut ti) = if cfg.value_import_bias && i == 0 {
                    // import-heavy sets: the first type of every module is an integer type wide enough
                    // to govern every generated value, so that values governed by NAMED types (local
                    // or imported) are common
                    ("INTEGER (0..1000)".to_string(), TypeInfo { name: String::new(), cat: "int", enumerals: vec![], named_bits: vec![], range: Some((0, 1000)) })
                } else {
                    g.gen_type(&mut ctx, 0, &name, &mut refs)
                };
                ti.name = name.clone();
                if !tag.is_empty() {
                    // a tagged alias is a new type as far as our bookkeeping goes
                    ti.cat = if ti.cat == "int" || ti.cat == "enum" || ti.cat == "bool" { ti.cat } else { "alias" };
                }
                ctx.types.push(ti);
                assigns.push(Assign { name: name.clone(), kind: AKind::Type, text: format!("{name} ::= {tag}{t}"), refs, comment });
            } else {
                let v = done_values[mi][i].clone();
                // typed by a local integer type whose range contains it, or plain INTEGER
                let cands: Vec<TypeInfo> = ctx
                    .types
                    .iter()
                    .filter(|t| t.cat == "int" && can_govern_values(&t.name) && t.range.is_some_and(|(lo, hi)| lo <= v.int && v.int <= hi))
                    .cloned()
                    .collect();
                // ... or by an imported integer type (the value's governing type then lives in a
                // third module from the point of view of whoever imports the value)
                let imported_cands: Vec<(String, TypeInfo)> = ctx
                    .imported_types
                    .iter()
                    .filter(|(_, t)| t.cat == "int" && can_govern_values(&t.name) && t.range.is_some_and(|(lo, hi)| lo <= v.int && v.int <= hi))
                    .cloned()
                    .collect();
                let roll = if cfg.value_import_bias { g.rng.below(6) } else { g.rng.below(10) };
                let (tyname, text) = match roll {
                    4 | 5 if !imported_cands.is_empty() => {
                        let (from, t) = g.rng.pick(&imported_cands).clone();
                        ctx.used_imports.entry(from).or_default().insert(t.name.clone());
                        refs.push(t.name.clone());
                        (t.name.clone(), format!("{} {} ::= {}", v.name, t.name, v.int))
                    }
                    0..=3 if !cands.is_empty() => {
                        let t = g.rng.pick(&cands).clone();
                        refs.push(t.name.clone());
                        (t.name.clone(), format!("{} {} ::= {}", v.name, t.name, v.int))
                    }
                    _ => ("INTEGER".to_string(), format!("{} INTEGER ::= {}", v.name, v.int)),
                };
                let _ = tyname;
                assigns.push(Assign { name: v.name.clone(), kind: AKind::Value, text, refs, comment });
            }
        }
        // a few non-integer value assignments (never referenced elsewhere)
        if cfg.values {
            let extra = g.rng.below(3);
            for k in 0..extra {
                let vname = format!("{}-x{}", p.stem.to_lowercase().trim_end_matches('-'), k);
                let mut refs = vec![];
                let text = match g.rng.below(10) {
                    7 => format!("{vname} SEQUENCE OF INTEGER ::= {{ {}, {} }}", g.rng.below(50), g.rng.below(50)),
                    8 => format!("{vname} SET OF BOOLEAN ::= {{ TRUE, FALSE }}"),
                    9 => {
                        let bits: Vec<TypeInfo> = ctx.types.iter().filter(|t| t.cat == "bits" && !t.named_bits.is_empty() && can_govern_values(&t.name)).cloned().collect();
                        if !bits.is_empty() {
                            let t = &bits[g.rng.below(bits.len())];
                            refs.push(t.name.clone());
                            format!("{vname} {} ::= {{ {} }}", t.name, t.named_bits[g.rng.below(t.named_bits.len())])
                        } else {
                            format!("{vname} BIT STRING ::= '0110'B")
                        }
                    }
                    0 => format!("{vname} BOOLEAN ::= {}", g.rng.pick(&["TRUE", "FALSE"])),
                    1 => format!("{vname} UTF8String ::= \"text {} \u{fc}\u{20ac}\"", g.rng.below(100)),
                    2 => format!("{vname} OCTET STRING ::= '{}'H", ["00", "DEADBEEF", "0A0B", "FF"][g.rng.below(4)]),
                    3 => format!("{vname} OBJECT IDENTIFIER ::= {{ {} {} {} }}", ["iso(1) org(3)", "1 3", "joint-iso-itu-t(2) ds(5)", "2 5"][g.rng.below(4)], g.rng.below(50), g.rng.below(50)),
                    4 => format!("{vname} BIT STRING ::= '{}'B", ["1010", "0", "11110000", "1"][g.rng.below(4)]),
                    5 => {
                        let enums: Vec<TypeInfo> = ctx.types.iter().filter(|t| t.cat == "enum" && !t.enumerals.is_empty() && can_govern_values(&t.name)).cloned().collect();
                        if !enums.is_empty() {
                            let t = &enums[g.rng.below(enums.len())];
                            refs.push(t.name.clone());
                            format!("{vname} {} ::= {}", t.name, t.enumerals[g.rng.below(t.enumerals.len())])
                        } else {
                            format!("{vname} NULL ::= NULL")
                        }
                    }
                    _ => format!("{vname} INTEGER ::= {}", g.rng.range(-1_000_000_000_000, 1_000_000_000_000)),
                };
                assigns.push(Assign { name: vname, kind: AKind::Value, text, refs, comment: String::new() });
            }
        }
        // classes / parameterized templates exported by earlier-indexed modules may be imported
        // here (possibly without being used: an unused import is legal)
        if cfg.classes {
            for &j in &import_from[mi] {
                for sym in &class_syms[j] {
                    if g.rng.chance(1, 2) {
                        ctx.used_imports.entry(pres[j].name.clone()).or_default().insert(sym.clone());
                        // objects of an imported class, with names that sort far apart (so that
                        // definitions of other modules sort between them)
                        let lo = p.stem.to_lowercase().trim_end_matches('-').to_string();
                        let mine = p.stem.trim_end_matches('-').to_string();
                        if sym.ends_with("TagBase") {
                            let n = format!("{mine}With{}", sym.trim_end_matches("TagBase"));
                            assigns.push(Assign { name: n.clone(), kind: AKind::Type, text: format!("{n} ::= SEQUENCE {{ COMPONENTS OF {sym}, own [7] BOOLEAN }}"), refs: vec![sym.clone()], comment: String::new() });
                        }
                        if sym.ends_with("TagWrap{}") {
                            let t = sym.trim_end_matches("{}");
                            let n = format!("{mine}Wrapped{}", t.trim_end_matches("TagWrap"));
                            assigns.push(Assign { name: n.clone(), kind: AKind::Type, text: format!("{n} ::= {t} {{ {} }}", ["BOOLEAN", "UTF8String", "INTEGER (0..7)"][g.rng.below(3)]), refs: vec![t.to_string()], comment: String::new() });
                        }
                        let field = if sym.ends_with("-OPS") { Some("CODE") } else if sym.ends_with("-CLASS") { Some("ID") } else { None };
                        if let Some(field) = field {
                            if g.rng.chance(2, 3) {
                                for (k, prefix) in ["alarm", "zone", "mid"].iter().enumerate() {
                                    let oname = format!("{prefix}-{lo}-{}", sym.to_lowercase());
                                    if k < 2 || g.rng.chance(1, 2) {
                                        assigns.push(Assign { name: oname.clone(), kind: AKind::Class, text: format!("{oname} {sym} ::= {{ {field} {} }}", 10 + k), refs: vec![sym.clone()], comment: String::new() });
                                    }
                                }
                            }
                        }
                    }
                }
            }
            if g.rng.chance(1, 4) {
                // a class whose fixed-type field is governed by a NAMED local type, two objects of it
                // and an object set (documented as producing no output)
                let up = p.stem.to_uppercase().trim_end_matches('-').to_string();
                let st = p.stem.trim_end_matches('-').to_string();
                let lo = st.to_lowercase();
                let code_ty = format!("{st}Code");
                assigns.push(Assign { name: code_ty.clone(), kind: AKind::Type, text: format!("{code_ty} ::= INTEGER (0..255)"), refs: vec![], comment: String::new() });
                let cname = format!("{up}-OPS");
                assigns.push(Assign { name: cname.clone(), kind: AKind::Class, text: format!("{cname} ::= CLASS {{ &code {code_ty} UNIQUE, &Type OPTIONAL }} WITH SYNTAX {{ CODE &code [TYPE &Type] }}"), refs: vec![code_ty.clone()], comment: String::new() });
                assigns.push(Assign { name: format!("{lo}-op1"), kind: AKind::Class, text: format!("{lo}-op1 {cname} ::= {{ CODE 5 }}"), refs: vec![cname.clone()], comment: String::new() });
                assigns.push(Assign { name: format!("{lo}-op2"), kind: AKind::Class, text: format!("{lo}-op2 {cname} ::= {{ CODE 6 TYPE BOOLEAN }}"), refs: vec![cname.clone()], comment: String::new() });
                assigns.push(Assign { name: format!("{st}OpSet"), kind: AKind::Class, text: format!("{st}OpSet {cname} ::= {{ {lo}-op1 | {lo}-op2, ... }}"), refs: vec![cname.clone(), format!("{lo}-op1"), format!("{lo}-op2")], comment: String::new() });
            }
            if g.rng.chance(1, 3) {
                let cname = format!("{}-CLASS", p.stem.to_uppercase().trim_end_matches('-'));
                // half of the time the identifier field is governed by a named local type too
                let (id_ty, refs) = if g.rng.chance(1, 2) {
                    let t = format!("{}Ident", p.stem.trim_end_matches('-'));
                    assigns.push(Assign { name: t.clone(), kind: AKind::Type, text: format!("{t} ::= INTEGER (0..65535)"), refs: vec![], comment: String::new() });
                    (t.clone(), vec![t])
                } else {
                    ("INTEGER".to_string(), vec![])
                };
                assigns.push(Assign {
                    name: cname.clone(),
                    kind: AKind::Class,
                    text: format!("{cname} ::= CLASS {{ &id {id_ty} UNIQUE, &Type OPTIONAL }} WITH SYNTAX {{ ID &id [TYPE &Type] }}"),
                    refs,
                    comment: String::new(),
                });
            }
            if g.rng.chance(1, 3) {
                // a SEQUENCE and a template whose members carry tags WITHOUT a keyword (this module's
                // tagging default decides what they mean); importers inherit the members with
                // COMPONENTS OF and instantiate the template under THEIR default
                let st = p.stem.trim_end_matches('-').to_string();
                // half of the time one member is of a type this module IMPORTS itself: whoever inherits
                // the members with COMPONENTS OF gets a member whose type lives in a third module
                let (fourth, base_refs) = if !ctx.imported_types.is_empty() && mix(g.rng.clone().next_u64(), 0x4fa) % 2 == 0 {
                    let (from, t) = ctx.imported_types[(mix(g.rng.clone().next_u64(), 0x4fb) % ctx.imported_types.len() as u64) as usize].clone();
                    ctx.used_imports.entry(from).or_default().insert(t.name.clone());
                    (format!(", fourth {}", t.name), vec![t.name.clone()])
                } else {
                    (String::new(), vec![])
                };
                assigns.push(Assign { name: format!("{st}TagBase"), kind: AKind::Type, text: format!("{st}TagBase ::= SEQUENCE {{ first [0] INTEGER, second [1] BOOLEAN OPTIONAL, third [APPLICATION {}] UTF8String{fourth} }}", 1 + g.rng.below(30)), refs: base_refs, comment: String::new() });
                assigns.push(Assign { name: format!("{st}TagWrap"), kind: AKind::Param, text: format!("{st}TagWrap {{Payload}} ::= SEQUENCE {{ payload [0] Payload, serial [1] INTEGER (0..65535) }}"), refs: vec![], comment: String::new() });
            }
            if g.rng.chance(1, 3) {
                let pname = format!("{}Box", p.stem.trim_end_matches('-'));
                // the dummy reference is a name of the template's own: half of the time it is
                // spelled like a top-level type of ANOTHER module (which this module does not
                // import and which has nothing to do with the template)
                let others: Vec<&String> = pres.iter().enumerate().filter(|(j, _)| *j != mi).flat_map(|(_, q)| q.type_names.iter()).filter(|n| !p.type_names.contains(n)).collect();
                let dummy = if !others.is_empty() && g.rng.chance(1, 2) { others[g.rng.below(others.len())].clone() } else { "ElementType".to_string() };
                // a third of the templates carry a tag of their own in front of the type (the
                // instances below have none)
                let ttag = match g.rng.below(6) {
                    0 => format!("[APPLICATION {}] ", 1 + g.rng.below(30)),
                    1 => format!("[PRIVATE {}] IMPLICIT ", 1 + g.rng.below(30)),
                    _ => String::new(),
                };
                assigns.push(Assign {
                    name: pname.clone(),
                    kind: AKind::Param,
                    text: format!("{pname} {{{dummy}}} ::= {ttag}SEQUENCE {{ content {dummy}, count INTEGER (0..7) }}"),
                    refs: vec![],
                    comment: String::new(),
                });
                if g.rng.chance(1, 3) {
                    // a template with a VALUE parameter, tagged or not, and an instance of it
                    let bname = format!("{}Bounded", p.stem.trim_end_matches('-'));
                    let btag = if g.rng.chance(1, 2) { format!("[PRIVATE {}] ", 1 + g.rng.below(30)) } else { String::new() };
                    assigns.push(Assign { name: bname.clone(), kind: AKind::Param, text: format!("{bname} {{INTEGER: upper}} ::= {btag}INTEGER (0..upper)"), refs: vec![], comment: String::new() });
                    let sname = format!("{}Small", p.stem.trim_end_matches('-'));
                    assigns.push(Assign { name: sname.clone(), kind: AKind::Type, text: format!("{sname} ::= {bname} {{{}}}", [7u32, 255, 1000][g.rng.below(3)]), refs: vec![bname.clone()], comment: String::new() });
                }
                if g.rng.chance(2, 3) {
                    // and an instance of it
                    let iname = format!("{}BoxOfInt", p.stem.trim_end_matches('-'));
                    assigns.push(Assign {
                        name: iname.clone(),
                        kind: AKind::Type,
                        text: format!("{iname} ::= {pname} {{ INTEGER (0..{}) }}", [255u32, 65535, 7][g.rng.below(3)]),
                        refs: vec![pname.clone()],
                        comment: String::new(),
                    });
                }
            }
        }
        if cfg.odd_governors && g.rng.chance(1, 2) {
            let up = p.stem.to_uppercase().trim_end_matches('-').to_string();
            let st = p.stem.trim_end_matches('-').to_string();
            let lo = st.to_lowercase();
            let cname = format!("{up}-KEYS");
            assigns.push(Assign { name: cname.clone(), kind: AKind::Class, text: format!("{cname} ::= CLASS {{ &id INTEGER UNIQUE, &Type OPTIONAL }} WITH SYNTAX {{ ID &id [TYPE &Type] }}"), refs: vec![], comment: String::new() });
            assigns.push(Assign { name: format!("{lo}-key-id"), kind: AKind::Value, text: format!("{lo}-key-id {cname}.&id ::= {}", g.rng.below(100)), refs: vec![cname.clone()], comment: String::new() });
            let pick = format!("{st}Pick");
            assigns.push(Assign { name: pick.clone(), kind: AKind::Type, text: format!("{pick} ::= CHOICE {{ num INTEGER, flag BOOLEAN }}"), refs: vec![], comment: String::new() });
            assigns.push(Assign { name: format!("{lo}-picked"), kind: AKind::Value, text: format!("{lo}-picked num < {pick} ::= {}", g.rng.below(100)), refs: vec![pick.clone()], comment: String::new() });
        }
        if cfg.values && g.rng.chance(1, 6) {
            // a value whose name differs from a type's name only in the case of its first letter
            // (version / Version): both mangle towards the same words
            let tys: Vec<String> = assigns.iter().filter(|a| a.kind == AKind::Type).map(|a| a.name.clone()).collect();
            if let Some(tn) = tys.iter().find(|t| t.as_str() != "Shared-Name") {
                let mut c = tn.chars();
                let vname: String = c.next().map(|f| f.to_lowercase().collect::<String>() + c.as_str()).unwrap_or_default();
                if vname != *tn && !assigns.iter().any(|a| a.name == vname) {
                    assigns.push(Assign { name: vname.clone(), kind: AKind::Value, text: format!("{vname} INTEGER ::= {}", g.rng.below(1000)), refs: vec![], comment: String::new() });
                }
            }
        }
        if cfg.warnful {
            let st = p.stem.trim_end_matches('-').to_string();
            let lo = st.to_lowercase();
            let pool: Vec<(String, AKind, String)> = vec![
                (format!("{st}Ids"), AKind::Type, format!("{st}Ids ::= SEQUENCE OF {st}Missing")),
                (format!("{lo}-ids"), AKind::Value, format!("{lo}-ids {st}Ids ::= {{ 1, 2 }}")),
                (format!("{st}Real"), AKind::Type, format!("{st}Real ::= REAL")),
                (format!("{st}Inv"), AKind::Type, format!("{st}Inv ::= INTEGER (5..1)")),
                (format!("{st}Dangling"), AKind::Type, format!("{st}Dangling ::= SEQUENCE {{ a {st}Missing OPTIONAL, b BOOLEAN }}")),
                (format!("{st}Sel"), AKind::Type, format!("{st}Sel ::= alt < {st}Nowhere")),
            ];
            if g.rng.chance(1, 2) {
                // user text of 2-, 3- and 4-byte characters that ends up inside the details of a
                // warning (the value of a SEQUENCE OF <SEQUENCE type> cannot be rendered by the
                // Rust backend; the warning quotes the value)
                let glyphs = ["é", "ß", "Ж", "日", "語", "€", "𝄞", "😀", "a", "Z", "7", " "];
                let mut elems = vec![];
                for k in 0..(1 + g.rng.below(4)) {
                    let len = g.rng.below(120) + 1;
                    let t: String = (0..len).map(|_| glyphs[g.rng.below(glyphs.len())]).collect();
                    elems.push(format!("{{ t \"{t}\", n {k} }}"));
                }
                assigns.push(Assign { name: format!("{st}Label"), kind: AKind::Type, text: format!("{st}Label ::= SEQUENCE {{ t UTF8String, n INTEGER }}"), refs: vec![], comment: String::new() });
                assigns.push(Assign { name: format!("{lo}-labels"), kind: AKind::Value, text: format!("{lo}-labels SEQUENCE OF {st}Label ::= {{ {} }}", elems.join(", ")), refs: vec![format!("{st}Label")], comment: String::new() });
            }
            for (name, kind, text) in pool {
                // the value needs its type: keep the first two together
                if g.rng.chance(1, 2) || (name.ends_with("-ids") && assigns.iter().any(|a: &Assign| a.name.ends_with("Ids"))) {
                    if name.ends_with("-ids") && !assigns.iter().any(|a: &Assign| a.name.ends_with("Ids")) {
                        continue;
                    }
                    assigns.push(Assign { name, kind, text, refs: vec![], comment: String::new() });
                }
            }
        }
        let imports: Vec<Import> = ctx
            .used_imports
            .iter()
            .map(|(from, syms)| {
                let with_oid = g.rng.chance(1, 2);
                let alias = if cfg.import_alias && with_oid && g.rng.chance(1, 2) { Some(format!("{from}-V2")) } else { None };
                Import { from: from.clone(), symbols: syms.iter().cloned().collect(), with_oid, alias }
            })
            .collect();
        done_types[mi] = ctx.types.clone();
        class_syms[mi] = assigns
            .iter()
            .filter_map(|a| match a.kind {
                AKind::Class => Some(a.name.clone()),
                AKind::Param => Some(format!("{}{{}}", a.name)),
                AKind::Type if a.name.ends_with("TagBase") => Some(a.name.clone()),
                _ => None,
            })
            .collect();
        let _ = (ctx.idx, ctx.ident_counter);
        let has_oid = g.rng.chance(2, 3);
        modules.push(Module {
            name: p.name.clone(),
            oid: if has_oid {
                // a quarter of the identifiers EXTEND the identifier of an earlier module by one arc
                // (a "family" of modules); the others are siblings under one arc
                let parents: Vec<String> = modules.iter().filter_map(|m: &Module| m.oid.clone()).collect();
                if !parents.is_empty() && g.rng.chance(1, 4) {
                    let par = parents[g.rng.below(parents.len())].trim_end_matches('}').trim_end().to_string();
                    Some(format!("{par} part{mi}({}) }}", 1 + mi))
                } else {
                    Some(oid_for(mi))
                }
            } else {
                None
            },
            tags: g.rng.pick(&["EXPLICIT", "IMPLICIT", "AUTOMATIC", ""]).to_string(),
            ext_implied: g.rng.chance(1, 3),
            exports_all: g.rng.chance(1, 3),
            imports,
            assigns,
            crlf: cfg.crlf && g.rng.chance(1, 3),
            indent: if g.rng.chance(1, 2) { "  ".into() } else { "\t".into() },
        });
    }
    let mut set = ModuleSet { modules };
    if cfg.recursion_bias {
        // explicit mutual-recursion pairs: two SEQUENCE / SET types of a module get, as their
        // FIRST members, an OPTIONAL member of the other's type and (when the module has one) a
        // member of a plain named type; the ordinary members follow. Types that another module
        // imports are preferred, so that a cycle is entered from outside its module as well.
        for mi in 0..set.modules.len() {
            if !rng.chance(7, 8) {
                continue;
            }
            let imported: Vec<String> = set
                .modules
                .iter()
                .enumerate()
                .filter(|(k, _)| *k != mi)
                .flat_map(|(_, m)| m.imports.iter().filter(|i| i.from == set.modules[mi].name).flat_map(|i| i.symbols.iter().cloned()).collect::<Vec<_>>())
                .collect();
            let assigns = &mut set.modules[mi].assigns;
            let structs: Vec<usize> = assigns
                .iter()
                .enumerate()
                .filter(|(_, a)| a.kind == AKind::Type && (a.text.contains("::= SEQUENCE {\n") || a.text.contains("::= SET {\n")) && !a.text.contains("COMPONENTS OF"))
                .map(|(i, _)| i)
                .collect();
            if structs.len() < 2 {
                continue;
            }
            let wanted: Vec<usize> = structs.iter().copied().filter(|i| imported.contains(&assigns[*i].name)).collect();
            let i = if !wanted.is_empty() && rng.chance(3, 4) { wanted[rng.below(wanted.len())] } else { structs[rng.below(structs.len())] };
            let others: Vec<usize> = structs.iter().copied().filter(|x| *x != i).collect();
            let j = others[rng.below(others.len())];
            let plain: Vec<String> = assigns
                .iter()
                .filter(|a| a.kind == AKind::Type && a.refs.is_empty() && !a.text.contains('{') && !a.text.contains(" OF ") && !a.text.contains('<'))
                .map(|a| a.name.clone())
                .collect();
            let (ni, nj) = (assigns[i].name.clone(), assigns[j].name.clone());
            let mut member = |name: &str, target: &str, set: bool, tag: u32| {
                let mut s = if set { format!("  {name} [{tag}] {target} OPTIONAL,\n") } else { format!("  {name} {target} OPTIONAL,\n") };
                if !plain.is_empty() && rng.chance(2, 3) {
                    let p = &plain[rng.below(plain.len())];
                    s.push_str(&if set { format!("  {name}-w [{}] {p},\n", tag + 1) } else { format!("  {name}-w {p},\n") });
                }
                s
            };
            let is_set_i = assigns[i].text.contains("::= SET {\n");
            let is_set_j = assigns[j].text.contains("::= SET {\n");
            let mi_text = member("cyc-fwd", &nj, is_set_i, 90);
            let mj_text = member("cyc-back", &ni, is_set_j, 92);
            assigns[i].text = assigns[i].text.replacen("{\n", &format!("{{\n{mi_text}"), 1);
            assigns[j].text = assigns[j].text.replacen("{\n", &format!("{{\n{mj_text}"), 1);
            assigns[i].refs.push(nj);
            assigns[j].refs.push(ni);
        }
    }
    if cfg.echo_inner_names && set.modules.len() >= 2 {
        // find `Type ::= SEQUENCE/SET {` with a first-level member that is itself an inline
        // SEQUENCE / SET / CHOICE / ENUMERATED, derive the inner type's name the way such names
        // are usually built (TitleCase(type) + TitleCase(member)) and give it to a new top-level
        // type of ANOTHER module
        let title = |s: &str| -> String {
            s.split('-').filter(|p| !p.is_empty()).map(|p| { let mut c = p.chars(); c.next().map(|f| f.to_uppercase().collect::<String>() + c.as_str()).unwrap_or_default() }).collect()
        };
        let mut found: Option<(usize, String)> = None;
        'outer: for (mi, m) in set.modules.iter().enumerate() {
            for a in &m.assigns {
                if a.kind != AKind::Type {
                    continue;
                }
                for line in a.text.lines().skip(1) {
                    // first-level members are indented by exactly two spaces
                    if let Some(rest) = line.strip_prefix("  ") {
                        if rest.starts_with(' ') {
                            continue;
                        }
                        let mut it = rest.split_whitespace();
                        let (Some(member), Some(kw)) = (it.next(), it.next()) else { continue };
                        let kw2 = if kw.starts_with('[') { it.find(|w| !w.ends_with(']') && *w != "IMPLICIT" && *w != "EXPLICIT" && !w.starts_with('[')).unwrap_or("") } else { kw };
                        if matches!(kw2, "SEQUENCE" | "SET" | "CHOICE" | "ENUMERATED") && !rest.contains(" OF ") {
                            found = Some((mi, format!("{}{}", title(&a.name), title(member))));
                            break 'outer;
                        }
                    }
                }
            }
        }
        if let Some((mi, name)) = found {
            let other = (mi + 1 + rng.below(set.modules.len() - 1)) % set.modules.len();
            let taken = set.modules.iter().any(|m| m.assigns.iter().any(|a| a.name == name));
            if !taken {
                set.modules[other].assigns.push(Assign { name: name.clone(), kind: AKind::Type, text: format!("{name} ::= BOOLEAN"), refs: vec![], comment: String::new() });
            }
        }
    }
    set
}

/// A sibling input: same module and assignment names, different bodies and defaults —
/// the input a stale per-name or per-module cache cannot survive.
pub fn sibling(set: &ModuleSet, rng: &mut Rng) -> ModuleSet {
    let mut s = set.clone();
    for m in &mut s.modules {
        m.tags = match m.tags.as_str() {
            "EXPLICIT" => "AUTOMATIC",
            "AUTOMATIC" => "IMPLICIT",
            "IMPLICIT" => "EXPLICIT",
            _ => "AUTOMATIC",
        }
        .to_string();
        m.ext_implied = !m.ext_implied;
        for a in &mut m.assigns {
            if a.kind == AKind::Type && (a.refs.is_empty() && rng.chance(1, 2) || rng.chance(1, 5)) {
                a.refs.clear();
                a.text = format!("{} ::= SEQUENCE {{ sib{} INTEGER (0..{}), alt BOOLEAN OPTIONAL }}", a.name, rng.below(9), rng.range(1, 999));
            }
        }
    }
    s
}

// ---------------------------------------------------------------- token map

#[derive(Clone, Copy, Debug, PartialEq)]
pub enum ByteClass {
    Blank,
    Comment,
    StringLit,
    /// inside an identifier, keyword, number or punctuation: a corruption here is "strict"
    Token,
}

/// Classify every byte of a generated source. Only has to be right for text this
/// generator produces (comment forms `-- ..` to end of line or the next `--`, `/* .. */`;
/// string literals `"…"` `'…'H` `'…'B`).
pub fn token_map(text: &str) -> Vec<ByteClass> {
    let b = text.as_bytes();
    let mut out = vec![ByteClass::Token; b.len()];
    let mut i = 0;
    while i < b.len() {
        let c = b[i];
        if c == b' ' || c == b'\t' || c == b'\n' || c == b'\r' {
            out[i] = ByteClass::Blank;
            i += 1;
        } else if c == b'-' && i + 1 < b.len() && b[i + 1] == b'-' {
            let start = i;
            i += 2;
            loop {
                if i >= b.len() || b[i] == b'\n' || b[i] == b'\r' {
                    break;
                }
                if b[i] == b'-' && i + 1 < b.len() && b[i + 1] == b'-' {
                    i += 2;
                    break;
                }
                i += 1;
            }
            for k in start..i {
                out[k] = ByteClass::Comment;
            }
        } else if c == b'/' && i + 1 < b.len() && b[i + 1] == b'*' {
            let start = i;
            i += 2;
            while i + 1 < b.len() && !(b[i] == b'*' && b[i + 1] == b'/') {
                i += 1;
            }
            i = (i + 2).min(b.len());
            for k in start..i {
                out[k] = ByteClass::Comment;
            }
        } else if c == b'"' || c == b'\'' {
            let q = c;
            let start = i;
            i += 1;
            while i < b.len() && b[i] != q {
                i += 1;
            }
            i = (i + 1).min(b.len());
            if q == b'\'' && i < b.len() && (b[i] == b'H' || b[i] == b'B') {
                i += 1;
            }
            for k in start..i {
                out[k] = ByteClass::StringLit;
            }
        } else {
            i += 1;
        }
    }
    out
}
