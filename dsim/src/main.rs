mod core;
mod gen;
mod proc;
mod rng;
mod sched;
mod shim;
mod sim;
mod sut;

use core::{Scenario, Tier};

fn scenarios() -> Vec<&'static dyn Scenario> {
    vec![]
}

fn main() {
    let args: Vec<String> = std::env::args().collect();
    let cmd = args.get(1).map(|s| s.as_str()).unwrap_or("");
    match cmd {
        "try" => {
            let text = std::fs::read_to_string(&args[2]).unwrap();
            let be = if args.get(3).map(|s| s.as_str()) == Some("ts") {
                sut::BackendSel::Ts
            } else {
                sut::BackendSel::Rasn(sut::RasnCfg::default_cfg())
            };
            sut::install_panic_hook();
            let o = sut::compile_to_string_render(&be, &[sut::Src::Literal(text.clone())], &Default::default(), &[text]);
            println!("{}", o.brief());
            for w in &o.warnings {
                println!("WARNING: {w}");
            }
            println!("{}", o.generated);
        }
        "gen" => {
            let seed: u64 = args[2].parse().unwrap();
            let mut rng = rng::Rng::new(seed);
            let set = gen::generate(&mut rng, &gen::GenCfg::default_cfg());
            println!("{}", set.concat());
        }
        "gen-yield" => {
            // fraction of generated sets that compile Ok without warnings, per backend
            let n: u64 = args[2].parse().unwrap();
            sut::install_panic_hook();
            let mut ok = [0u64; 2];
            let mut warn = [0u64; 2];
            let mut err = [0u64; 2];
            let mut hist: std::collections::BTreeMap<String, (u64, u64)> = Default::default();
            for seed in 0..n {
                let mut rng = rng::Rng::new(seed);
                let set = gen::generate(&mut rng, &gen::GenCfg::default_cfg());
                let text = set.concat();
                for (bi, be) in [sut::BackendSel::Rasn(sut::RasnCfg::default_cfg()), sut::BackendSel::Ts].iter().enumerate() {
                    let o = sut::compile_to_string_render(be, &[sut::Src::Literal(text.clone())], &Default::default(), &[text.clone()]);
                    let key = if o.panic.is_some() { format!("PANIC {}", o.panic.clone().unwrap()) }
                        else if !o.ok { format!("ERR {}", o.err.clone().unwrap()) }
                        else if !o.warnings.is_empty() { format!("WARN {}", o.warnings[0]) } else { String::new() };
                    if o.ok && o.warnings.is_empty() { ok[bi] += 1 } else if o.ok { warn[bi] += 1 } else { err[bi] += 1 }
                    if !key.is_empty() {
                        let k: String = key.chars().map(|c| if c.is_ascii_digit() { '#' } else { c }).take(110).collect();
                        let e = hist.entry(format!("{} {k}", be.short())).or_insert((0, seed));
                        e.0 += 1;
                    }
                }
            }
            println!("rasn ok={} warn={} err={} | ts ok={} warn={} err={}", ok[0], warn[0], err[0], ok[1], warn[1], err[1]);
            let mut v: Vec<_> = hist.into_iter().collect();
            v.sort_by_key(|(_, (c, _))| std::cmp::Reverse(*c));
            for (k, (c, s)) in v.iter().take(25) {
                println!("{c:5} first-seed={s} {k}");
            }
        }
        _ => {
            eprintln!("usage: dsim check|worker|replay|try ...");
            std::process::exit(2);
        }
    }
    let _ = (scenarios(), Tier::Quick);
}
