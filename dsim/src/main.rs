mod c08;
mod c10;
mod c11;
mod c12;
mod c17;
mod proj;
mod c20;
mod c20s;
mod c20x;
mod core;
mod gen;
mod proc;
mod rng;
mod sched;
mod shim;
mod sim;
mod sut;

use core::{Scenario, Tier};

/// The allocator seam: the system allocator, plus a tick to the scheduler after every
/// allocation (a yield point for sim threads inside an operation when the run's plan says so;
/// one relaxed atomic load otherwise).
struct YieldAlloc;
unsafe impl std::alloc::GlobalAlloc for YieldAlloc {
    unsafe fn alloc(&self, l: std::alloc::Layout) -> *mut u8 {
        let p = std::alloc::System.alloc(l);
        sched::alloc_tick();
        p
    }
    unsafe fn alloc_zeroed(&self, l: std::alloc::Layout) -> *mut u8 {
        let p = std::alloc::System.alloc_zeroed(l);
        sched::alloc_tick();
        p
    }
    unsafe fn realloc(&self, ptr: *mut u8, l: std::alloc::Layout, new_size: usize) -> *mut u8 {
        let p = std::alloc::System.realloc(ptr, l, new_size);
        sched::alloc_tick();
        p
    }
    unsafe fn dealloc(&self, ptr: *mut u8, l: std::alloc::Layout) {
        std::alloc::System.dealloc(ptr, l)
    }
}
#[global_allocator]
static GLOBAL: YieldAlloc = YieldAlloc;

fn scenarios() -> Vec<&'static dyn Scenario> {
    vec![&c20::C20Lib, &c20x::C20Fmt { c10: false }, &c20x::C20Cli, &c20x::C20Macro, &c20s::C20Seq, &c11::C11Threads { xmod: false, fine: false, fmt: false }, &c11::C11Threads { xmod: true, fine: false, fmt: false }, &c11::C11Threads { xmod: false, fine: true, fmt: false }, &c11::C11Threads { xmod: false, fine: false, fmt: true }, &c08::C08Images, &c17::C17Corrupt, &c12::C12Deliveries, &c12::C12Subsets, &c12::C12XmodEnumeral, &c12::C12XmodName, &c12::C12TagKeywords, &c10::C10Faults, &c10::C10XmodName, &c20x::C20Fmt { c10: true }]
}

fn meta(prop: &str) -> (&'static str, Vec<&'static str>, serde_json::Value) {
    let components = serde_json::json!({
        "real": ["rasn_compiler lexer, linker/validator, rasn and TypeScript generators, Compiler builder (built from /repo's working tree, feature verif-hooks)", "Rust std I/O", "kernel tmpfs under /dev/shm"],
        "stub": if matches!(prop, "C20" | "C10" | "C11") { vec!["rustfmt: fake-rustfmt/fake_rustfmt.c, a deterministic stand-in (modes ok, slurp, exit1/2/3, die:<k>, badutf8, noread, failif:<n>; stdin/stdout and in-place file mode) — used by the scenarios fmt (C20), formatter-faults (C10) and formatter (C11) only"] } else { vec![] },
        "simulated_seams": ["libc I/O entry points (LD_PRELOAD libsimio.so: outcomes decided by the fault plan)", "getrandom (seeded entropy for RandomState)", "thread scheduling (baton over real OS threads)", "heap allocator (global allocator of the simulator binary: allocations of the code under test as yield points, scenario fine-grain of C11)", "rustfmt lookup ($CARGO_HOME/bin/rustfmt, $CARGO): the stand-in fake-rustfmt where a scenario installs it"],
        "not_run": ["the rasn runtime crate (no claimed property needs generated code to be compiled)"]
    });
    match prop {
        "C20" => (
            "fault_enumeration",
            vec![
                "the reference for every run is compile_to_string() on the same texts in a pristine single-threaded child process",
                "the kernel file system is the real tmpfs; the shim decides call outcomes, it does not model page cache or journalling",
                "per workload the single-fault sweep is complete over the recorded I/O trace; workloads themselves are sampled from the seed",
                "after a write-class hard fault the destination's content is unconstrained (fs::write truncates first; the property does not promise atomic replacement)",
                "fmt scenario: rustfmt is a deterministic STUB (fake-rustfmt) whose failure mode comes from the plan; how the compiler maps rustfmt's exit codes is not judged, only that compile() delivers what compile_to_string() returns, that the text is the raw bindings or the stub's real output, that a healthy formatter is used and that both calls return",
                "cli scenario: the real rasn_compiler_cli binary (built from /repo with --features cli, hooks off) runs as a child process under the same LD_PRELOAD seam; runs in which a directory-walk call was failed are only checked for not crashing",
                "seq scenario: 2..4 compile() operations per process on 1..3 sim threads, each with its own sources and destination; the fault-free run is followed by ten runs with ONE sampled fault each at a call position of the recorded trace, under the recorded schedule; calls are attributed to operations through the op-begin/op-end notes of the event log",
                "macro scenario: a capture proc-macro crate include!s /repo/rasn-compiler-derive/src/lib.rs, so the working tree's asn1! runs inside a real rustc (invoked directly, with a cleared environment so that no rustfmt is reachable); expansions are compared as canonical token text with the parse of compile_to_string() on the text the macro is documented to build (bare snippets wrapped in the `asn1` AUTOMATIC TAGS dummy module)",
            ],
            serde_json::json!({"components": components, "rule": "a case = (workload, fault plan): workload = generated module set x malformed variant x backend/config x delivery (literals/files) x builder path x output mode x destination state; every workload is run fault-free, then once per (call position of its recorded I/O trace x applicable fault kind), then with sampled double/triple faults. distinct = distinct (plan signature, I/O-trace signature) pairs; every run evaluates at least one oracle, so every run is non-trivial"}),
        ),
        "C08" => (
            "exploration",
            vec![
                "SLICE: only storage-fault images of valid sources are explored (truncation at any byte, bit flips, sector zero-fill/duplicate/swap, splices of two files) — not arbitrary byte soup and not GENERATED exotic notation: those need an input fuzzer, which is another technique family; hand-written bases bring MACRO/CLASS/TIME/parameterization notation, reference cycles of every kind, rejected notation and boundary literals into the slice (one run in eight)",
                "types nested some 250 levels deep exhaust a 2 MiB stack in the recursive-descent lexer and the linker (SIGSEGV): seen while probing, in no base of this check (no real module nests deeper than a dozen levels); recorded in DESIGN 10.2",
                "a literal is always valid UTF-8 (images are converted lossily); invalid UTF-8 reaches the compiler only through file delivery",
                "non-termination is detected by a CPU-time budget per image (RLIMIT_CPU re-armed before each image): 60 s + 1200 s * (n/100 KB)^2 against a typical 1-200 ms; the quadratic term exists because the lexer's block-comment scanner is quadratic in the length of an unterminated comment (about 100 s for 95 KB), which is slow but terminates and is therefore not a violation; images are cut at 48 KB (quick) / 160 KB (thorough)",
            ],
            serde_json::json!({"components": components, "rule": "a case = (valid base source, storage-fault image, delivery, backend): bases are the 892 corpus files (walked systematically), generated module sets and (one run in eight) hand-written bases from dsim/samples (notation, notation 2, cycles, 42 rejected-notation inputs, 68 boundary-literal inputs); images are truncations (biased to the last bytes), single-bit flips, 512-byte sector zero-fill/duplication/swap and splices; delivered as a literal or as a file read through the simulated disk (truncation/flip/zero-fill applied by the seam to the bytes in flight); both backends (the rasn backend with a random RasnConfig in half of the runs); every error and warning rendered with Display and contextualize. distinct = distinct (base hash, image, delivery); non-trivial = the image differs from the base"}),
        ),
        "C12" => (
            "exploration",
            vec![
                "Oracle A uses only the public Backend trait (a wrapper backend handed to Compiler::with_backend); the inner backends are the real RasnBackend / TypescriptBackend",
                "the stand-alone reference of a module is compile_to_string() of the module plus its transitive import cone in a pristine process",
                "name mangling is not re-implemented: which Rust identifiers an assignment produces is learned by leave-one-out compilation of the exporting module",
                "generated module sets keep top-level names, enumerals and named numbers disjoint across modules, except in the dedicated xmod-* scenarios, where a violation is classified by re-running the same plan with the shared spelling renamed apart",
                "tag-keywords: only the tags of an assignment's own type and of its DIRECT components are spelled out — the compiler leaves the tags of nested anonymous types at IMPLICIT whatever the module default says (a defect against C03, which is not decided here), so spelling those out would change the EXPLICIT module itself; only EXPLICIT is spelled out because `[n] IMPLICIT T` is illegal for CHOICE and open types",
            ],
            serde_json::json!({"components": components, "rule": "deliveries: a case = a run of 1..3 compilations (same set, its sibling, or another set; 2..5 modules with differing TAGS/EXTENSIBILITY defaults and import graphs) through a Hist<B> wrapper that replays, duplicates and reorders generate_module deliveries; every delivery is compared with the same call on a fresh backend. subsets: a case = a module set and 3..6 sub-multisets (cone of a module + random neighbours + duplicates, random order, literals/one literal/files, random builder path); every present module's block is compared token-for-token with its block in the stand-alone compilation, and its use declarations with the IMPORTS clauses. tag-keywords: a case = a module set with at least one EXPLICIT TAGS module and one other, compiled as written and with EXPLICIT spelled out after every keyword-less first-level tag of the EXPLICIT modules; every module block must be token-identical in the two. distinct = distinct (set, compilations or delivery stream) signatures; non-trivial = at least one block / delivery comparison was made"}),
        ),
        "C17" => (
            "exploration",
            vec![
                "SLICE: stored-byte corruption only (replacement by a byte that starts no ASN.1 token, 512-byte zero-fill, truncation inside an assignment) at positions the generator's token map classifies as strict; deletion or replacement by another valid token is a typo model, not a fault model, and is not decided here",
                "a result of Ok, or an Err that is not a syntax (matching) error, is not judged",
                "a comment is not a token: the lower bound is the first byte of the malformed unit's own first token",
                "two-byte corruptions (comma blanked + later damage): the upper bound is the identifier that follows the lost comma; when the later damage sits inside a DEFAULT value the unchanged tree reports it there (known finding lenient-comma-then-damaged-default, identified by that context)",
                "histories: the earlier compilations of a thread are not judged themselves; a panic in one of them makes the case inconclusive",
                "preludes: a hand-written module placed in front of the corrupted text in the same source is used only when it compiles on its own (probed in the same child); all offsets of the oracle are shifted by its length",
                "when contextualize flags no line at all (the failing line is blank) only Display, the contextualize header and the structured line are compared",
            ],
            serde_json::json!({"components": components, "rule": "a case = (generated source of 1..3 modules with LF/CRLF and comments, corruption, delivery, backend): small sources (<= 4 assignments per module) are swept exhaustively over every strict byte position, larger ones sampled; every unit (header, assignment, END) is also hit at its first and last strict byte; plus sector zero-fills, truncations inside assignments and at unit boundaries, damaged comment terminators, two-byte corruptions, (one case in twenty-five) a history of up to 140 earlier compilations on the same thread, and (one literal case in twenty) a hand-written module of other notation in front of the corrupted text in the same source; delivered as a literal or as a file whose bytes the seam corrupts in flight. distinct = distinct (source hash, corruption, delivery, backend); non-trivial = the compiler returned a syntax error and all five clauses were evaluated"}),
        ),
        "C10" => (
            "exploration",
            vec![
                "the reference is the fault-free compilation of the same module set; which output items belong to which definition is learned by leave-one-out compilation (minus the items of its dependents), so the harness holds no copy of the compiler's naming rules",
                "definitions whose attribution is empty (they produce no item of their own in the fault-free run) are not judged by the accounting oracle",
                "a warning that names no definition at all (e.g. `Real types are currently unsupported!`) may account for any one otherwise unaccounted definition (bipartite matching), as the property allows a definition to be `the subject of a returned warning`",
                "for input-level faults the locality oracle exempts the transitive dependents of the replaced definition (and the accounting oracle accepts a dependent as represented when any of its items is still there: it legitimately changes shape); for buggify faults nothing but the faulted definition is exempt",
                "formatter-faults: rustfmt is a deterministic STUB (fake-rustfmt); only VISIBLE failures are injected (death by signal mid-output, exit 1/2/3, invalid UTF-8) — a formatter that exits 0 without output lies about its success, which no caller can see through",
            ],
            serde_json::json!({"components": components, "rule": "a case = (generated set of 1..4 modules, backend/config, 1..3 definition-level faults): buggify at the generator stage or at the validator stage (cooperative fault points in the compiler, feature verif-hooks), replacement of a type assignment by REAL / VideotexString / inverted range / MACRO, or one module that does not lex; formatter-faults: a case = (generated set or corpus file, RasnConfig, stand-in mode, installation state, output mode). distinct = distinct (set, fault list, backend); non-trivial = the faulted compilation returned and the accounting and locality oracles were evaluated (or, for a lexer failure, the Err discriminant)"}),
        ),
        "C11" => (
            "exploration",
            vec![
                "the reference for every (input, backend/config) key is a canonical-order, single-threaded compile_to_string() in a pristine process of its own",
                "interleaving granularity is hook points (verif::point) and intercepted libc calls; in scenario fine-grain additionally every k-th heap allocation of the code under test (k in 1..64), which reaches state that a change publishes and consumes between two hook points",
                "rustfmt is made unreachable (sanitised CARGO_HOME/CARGO) so that formatting is not an environmental variable — except in scenario formatter, where the stand-in (a STUB) is reachable in a mode that is a pure function of its input, for the reference process as well",
                "multi-file corpus sets are combined only when an over-approximate token scan finds their names disjoint (finding F1: bare-name collisions)",
            ],
            serde_json::json!({"components": components, "rule": "a case = one simulated run: 1..16 caller threads x histories of 1..8 compile_to_string() operations over generated module sets, their siblings (same names, other bodies/defaults) and corpus files, each operation in a random arrangement (assignment permutation per module, module order, regrouping of modules into sources), literal or file delivery with benign read faults, one operation in five as compile() into a file path the thread reuses (the file content is compared), random RasnConfig, seeded hash keys, scheduler strategy random/PCT/run-to-completion. distinct = distinct (plan signature, schedule signature) pairs; non-trivial = at least one operation was compared byte-for-byte against an Ok reference"}),
        ),
        _ => ("exploration", vec![], serde_json::json!({"components": components, "rule": ""})),
    }
}

fn main() {
    let args: Vec<String> = std::env::args().collect();
    let cmd = args.get(1).map(|s| s.as_str()).unwrap_or("");
    match cmd {
        "check" => {
            let prop = args[2].clone();
            let tier = Tier::parse(args.get(3).map(|s| s.as_str()).unwrap_or("quick"));
            if !shim::present() {
                eprintln!("HARNESS-ERROR: libsimio.so is not preloaded; run through /verif/check");
                std::process::exit(2);
            }
            let all = scenarios();
            // DSIM_ONLY=<scenario> restricts a run to one scenario (debugging aid; the evidence file
            // then describes that partial run — registered commands never set it)
            let only = std::env::var("DSIM_ONLY").ok();
            let mine: Vec<&'static dyn Scenario> = all.into_iter().filter(|s| s.property() == prop && only.as_deref().map_or(true, |o| o == s.name())).collect();
            if mine.is_empty() {
                eprintln!("HARNESS-ERROR: no scenario for property {prop}");
                std::process::exit(2);
            }
            let (level, assumptions, comp) = meta(&prop);
            let code = core::check(&prop, &mine, tier, level, &assumptions, comp);
            std::process::exit(code);
        }
        "worker" => {
            // worker <prop> <scenario> <tier> <seed> <wid> <nworkers> <deadline_s> <out>
            let all = scenarios();
            let scn = all.iter().find(|s| s.property() == args[2] && s.name() == args[3]).expect("scenario");
            core::worker(
                *scn,
                Tier::parse(&args[4]),
                args[5].parse().unwrap(),
                args[6].parse().unwrap(),
                args[7].parse().unwrap(),
                args[8].parse().unwrap(),
                &args[9],
            );
        }
        "selftest" => {
            // selftest <prop|all> <n>
            if !shim::present() {
                eprintln!("HARNESS-ERROR: libsimio.so is not preloaded");
                std::process::exit(2);
            }
            let which = args.get(2).cloned().unwrap_or("all".into());
            let n: u64 = args.get(3).and_then(|s| s.parse().ok()).unwrap_or(400);
            let all: Vec<&'static dyn Scenario> = scenarios().into_iter().filter(|s| which == "all" || s.property() == which).collect();
            std::process::exit(core::selftest(&all, n));
        }
        "selftest-worker" => {
            let all = scenarios();
            let scn = all.iter().find(|s| s.property() == args[2] && s.name() == args[3]).expect("scenario");
            core::selftest_worker(*scn, args[4].parse().unwrap(), args[5].parse().unwrap(), args[6].parse().unwrap(), args[7].parse().unwrap(), &args[8]);
        }
        "run-one" => {
            // run-one <prop> <scenario> <idx> : print the outcome of one run (debugging aid)
            let all = scenarios();
            let scn = all.iter().find(|s| s.property() == args[2] && s.name() == args[3]).expect("scenario");
            let env = core::Env::detect();
            let base_seed: u64 = std::env::var("VERIF_SEED").ok().and_then(|s| s.parse().ok()).unwrap_or(1);
            let idx: u64 = args[4].parse().unwrap();
            let seed = core::run_seed(base_seed, *scn, idx);
            let plan = scn.plan(seed, idx, Tier::Quick, &env);
            let rr = core::run_plan(*scn, &plan, &env);
            println!("{}", serde_json::to_string(&rr.outcome).unwrap());
        }
        "set-text" => {
            // set-text <replay file>: print the generated module set of a plan (debugging aid)
            let doc: serde_json::Value = serde_json::from_slice(&std::fs::read(&args[2]).unwrap()).unwrap();
            let set: gen::ModuleSet = serde_json::from_value(doc["plan"]["set"].clone()).expect("plan has no `set`");
            println!("{}", set.concat());
        }
        "c17-show" => c17::show(&args[2]),
        "c17-double" => c17::show_double(args[2].parse().unwrap()),
        "replay" => {
            if !shim::present() {
                eprintln!("HARNESS-ERROR: libsimio.so is not preloaded; run through /verif/check");
                std::process::exit(2);
            }
            std::process::exit(core::replay(&args[2], &scenarios()));
        }
        "try" => {
            let text = std::fs::read_to_string(&args[2]).unwrap();
            let be = if args.get(3).map(|s| s.as_str()) == Some("ts") {
                sut::BackendSel::Ts
            } else {
                sut::BackendSel::Rasn(sut::RasnCfg::default_cfg())
            };
            sut::install_panic_hook();
            let o = sut::compile_to_string_render(&be, &[sut::Src::Literal(text.clone())], &Default::default(), &[text]);
            println!("{}", o.brief());
            for w in &o.warnings {
                println!("WARNING: {w}");
            }
            println!("{}", o.generated);
        }
        "gen-stats" => {
            // how often does an import-heavy set contain a module that imports >= 2 values whose
            // governing named types live in >= 2 distinct modules?
            let n: u64 = args[2].parse().unwrap();
            let mut hits = 0;
            let mut typed_imports = 0;
            for seed in 0..n {
                let mut rng = rng::Rng::new(seed);
                let mut cfg = gen::GenCfg::default_cfg();
                cfg.comments = false;
                cfg.intra_shared_enumerals = true;
                cfg.classes = true;
                cfg.real_components = true;
                cfg.value_import_bias = true;
                cfg.modules = (3, 5);
                cfg.assigns = (3, 8);
                let set = gen::generate(&mut rng, &cfg);
                for m in &set.modules {
                    let mut homes = std::collections::BTreeSet::new();
                    for imp in &m.imports {
                        let Some(em) = set.get(&imp.from) else { continue };
                        for sym in &imp.symbols {
                            for a in em.assigns.iter().filter(|a| &a.name == sym && a.kind == gen::AKind::Value) {
                                for r in &a.refs {
                                    let home = em.imports.iter().find(|i| i.symbols.contains(r)).map(|i| i.from.clone()).unwrap_or(em.name.clone());
                                    typed_imports += 1;
                                    homes.insert(home);
                                }
                            }
                        }
                    }
                    if homes.len() >= 2 {
                        hits += 1;
                    }
                }
            }
            println!("sets={n} modules_with_typed_value_imports_from_>=2_homes={hits} typed_value_imports={typed_imports}");
        }
        "gen" => {
            let seed: u64 = args[2].parse().unwrap();
            let mut rng = rng::Rng::new(seed);
            let mut gcfg = gen::GenCfg::default_cfg();
            if args.get(3).map(|s| s.as_str()) == Some("rec") {
                gcfg.recursion_bias = true;
                gcfg.comments = false;
                gcfg.modules = (2, 5);
            }
            let set = gen::generate(&mut rng, &gcfg);
            println!("{}", set.concat());
        }
        "gen-yield" => {
            // fraction of generated sets that compile Ok without warnings, per backend
            let n: u64 = args[2].parse().unwrap();
            sut::install_panic_hook();
            let mut ok = [0u64; 2];
            let mut warn = [0u64; 2];
            let mut err = [0u64; 2];
            let mut hist: std::collections::BTreeMap<String, (u64, u64)> = Default::default();
            for seed in 0..n {
                let mut rng = rng::Rng::new(seed);
                let mut gcfg = gen::GenCfg::default_cfg();
                if args.get(3).map(|s| s.as_str()) == Some("full") {
                    // every knob the C11 / C12 workloads switch on (warning-free ones)
                    gcfg.comments = false;
                    gcfg.intra_shared_enumerals = true;
                    gcfg.classes = true;
                    gcfg.real_components = true;
                    gcfg.components_of = true;
                    gcfg.echo_inner_names = true;
                    gcfg.recursion_bias = seed % 2 == 0;
                    gcfg.value_import_bias = seed % 2 == 0;
                    gcfg.modules = (2, 5);
                }
                let set = gen::generate(&mut rng, &gcfg);
                let text = set.concat();
                for (bi, be) in [sut::BackendSel::Rasn(sut::RasnCfg::default_cfg()), sut::BackendSel::Ts].iter().enumerate() {
                    let o = sut::compile_to_string_render(be, &[sut::Src::Literal(text.clone())], &Default::default(), &[text.clone()]);
                    let key = if o.panic.is_some() { format!("PANIC {}", o.panic.clone().unwrap()) }
                        else if !o.ok { format!("ERR {}", o.err.clone().unwrap()) }
                        else if !o.warnings.is_empty() { format!("WARN {}", o.warnings[0]) } else { String::new() };
                    if o.ok && o.warnings.is_empty() { ok[bi] += 1 } else if o.ok { warn[bi] += 1 } else { err[bi] += 1 }
                    if !key.is_empty() {
                        let k: String = key.chars().map(|c| if c.is_ascii_digit() { '#' } else { c }).take(110).collect();
                        let e = hist.entry(format!("{} {k}", be.short())).or_insert((0, seed));
                        e.0 += 1;
                    }
                }
            }
            println!("rasn ok={} warn={} err={} | ts ok={} warn={} err={}", ok[0], warn[0], err[0], ok[1], warn[1], err[1]);
            let mut v: Vec<_> = hist.into_iter().collect();
            v.sort_by_key(|(_, (c, _))| std::cmp::Reverse(*c));
            for (k, (c, s)) in v.iter().take(25) {
                println!("{c:5} first-seed={s} {k}");
            }
        }
        _ => {
            eprintln!("usage: dsim check|worker|replay|try ...");
            std::process::exit(2);
        }
    }
}
