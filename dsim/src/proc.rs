//! Process model: every execution of compiler code happens in a child forked from a
//! single-threaded parent that has never executed compiler code, so all children start
//! from the same process image and a crash (panic=abort paths, SIGSEGV from stack
//! exhaustion, SIGABRT, SIGXCPU from the CPU budget) is contained and observed.

use std::io::Write;
use std::os::fd::FromRawFd;

#[derive(Debug, Clone, PartialEq)]
pub enum Exit {
    Code(i32),
    Signal(i32),
    /// reaped by the wall-clock backstop (child blocked forever)
    WallTimeout,
}

pub struct ChildOutput {
    pub bytes: Vec<u8>,
    pub exit: Exit,
}

impl ChildOutput {
    pub fn text(&self) -> String {
        String::from_utf8_lossy(&self.bytes).into_owned()
    }
}

pub fn signal_name(s: i32) -> &'static str {
    match s {
        libc::SIGSEGV => "SIGSEGV",
        libc::SIGABRT => "SIGABRT",
        libc::SIGXCPU => "SIGXCPU",
        libc::SIGKILL => "SIGKILL",
        libc::SIGBUS => "SIGBUS",
        libc::SIGILL => "SIGILL",
        libc::SIGPIPE => "SIGPIPE",
        _ => "SIG?",
    }
}

/// Fork; run `f` in the child with a writer to the parent; collect what it wrote.
/// `cpu_secs`: RLIMIT_CPU soft limit (SIGXCPU). `wall_ms`: backstop for a blocked child.
pub fn fork_run<F: FnOnce(&mut std::fs::File)>(cpu_secs: u64, wall_ms: i64, f: F) -> ChildOutput {
    let mut fds = [0i32; 2];
    unsafe {
        if libc::pipe2(fds.as_mut_ptr(), libc::O_CLOEXEC) != 0 {
            panic!("pipe2 failed");
        }
        let pid = libc::fork();
        if pid < 0 {
            panic!("fork failed");
        }
        if pid == 0 {
            libc::close(fds[0]);
            // hard limit left open so that a scenario can re-arm the soft limit per case (set_cpu_budget_from_now)
            let lim = libc::rlimit { rlim_cur: cpu_secs, rlim_max: libc::RLIM_INFINITY };
            libc::setrlimit(libc::RLIMIT_CPU, &lim);
            // a runaway allocation must end this child (allocation failure aborts), not the machine
            let mem = libc::rlimit { rlim_cur: 8 << 30, rlim_max: 8 << 30 };
            libc::setrlimit(libc::RLIMIT_AS, &mem);
            let nocore = libc::rlimit { rlim_cur: 0, rlim_max: 0 };
            libc::setrlimit(libc::RLIMIT_CORE, &nocore);
            // own process group, so that helper children (fake rustfmt) die with us
            libc::setpgid(0, 0);
            RESULT_FD.store(fds[1], std::sync::atomic::Ordering::Relaxed);
            let mut w = std::fs::File::from_raw_fd(fds[1]);
            f(&mut w);
            let _ = w.flush();
            libc::_exit(0);
        }
        libc::close(fds[1]);
        let mut out = Vec::new();
        let mut buf = [0u8; 65536];
        let start = std::time::Instant::now();
        let mut timed_out = false;
        loop {
            let left = wall_ms - start.elapsed().as_millis() as i64;
            if left <= 0 {
                timed_out = true;
                break;
            }
            let mut p = libc::pollfd { fd: fds[0], events: libc::POLLIN, revents: 0 };
            let r = libc::poll(&mut p, 1, left.min(1000) as i32);
            if r < 0 {
                if *libc::__errno_location() == libc::EINTR {
                    continue;
                }
                break;
            }
            if r == 0 {
                continue;
            }
            let n = libc::read(fds[0], buf.as_mut_ptr() as *mut libc::c_void, buf.len());
            if n < 0 {
                if *libc::__errno_location() == libc::EINTR {
                    continue;
                }
                break;
            }
            if n == 0 {
                break;
            }
            out.extend_from_slice(&buf[..n as usize]);
        }
        libc::close(fds[0]);
        if timed_out {
            libc::kill(-pid, libc::SIGKILL);
            libc::kill(pid, libc::SIGKILL);
        }
        let mut status = 0;
        loop {
            let r = libc::waitpid(pid, &mut status, 0);
            if r < 0 && *libc::__errno_location() == libc::EINTR {
                continue;
            }
            break;
        }
        // reap stragglers of the child's process group (a fake rustfmt left behind)
        libc::kill(-pid, libc::SIGKILL);
        let exit = if timed_out {
            Exit::WallTimeout
        } else if libc::WIFSIGNALED(status) {
            Exit::Signal(libc::WTERMSIG(status))
        } else {
            Exit::Code(libc::WEXITSTATUS(status))
        };
        ChildOutput { bytes: out, exit }
    }
}

/// Re-arm the CPU budget (SIGXCPU) to `secs` seconds of CPU time from now on. Used by
/// scenarios that run several cases in one child, so that the budget is per case.
pub fn set_cpu_budget_from_now(secs: u64) {
    unsafe {
        let mut ru: libc::rusage = std::mem::zeroed();
        libc::getrusage(libc::RUSAGE_SELF, &mut ru);
        let used = (ru.ru_utime.tv_sec + ru.ru_stime.tv_sec) as u64 + 2;
        let lim = libc::rlimit { rlim_cur: used + secs, rlim_max: libc::RLIM_INFINITY };
        libc::setrlimit(libc::RLIMIT_CPU, &lim);
    }
}

static RESULT_FD: std::sync::atomic::AtomicI32 = std::sync::atomic::AtomicI32::new(-1);

/// Give up on the current simulation child from any thread: write `json` as its result and exit.
pub fn abort_child_with(json: &str) -> ! {
    unsafe {
        let fd = RESULT_FD.load(std::sync::atomic::Ordering::Relaxed);
        if fd >= 0 {
            libc::write(fd, json.as_ptr() as *const libc::c_void, json.len());
        }
        libc::_exit(0);
    }
}
