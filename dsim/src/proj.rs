//! Projections of generated output used by the C10 / C12 oracles: the per-module blocks,
//! their items and their `use` declarations (Rust via `syn`; TypeScript by brace matching).

use quote::ToTokens;
use std::collections::{BTreeMap, BTreeSet};

#[derive(Clone, Debug, Default, PartialEq)]
pub struct UseDecl {
    /// path segments before the final group / name, e.g. ["super", "mod_b"]
    pub path: Vec<String>,
    /// imported names; "*" for a glob
    pub names: BTreeSet<String>,
    pub text: String,
}

#[derive(Clone, Debug, Default)]
pub struct ModBlock {
    pub name: String,
    /// normalised token text of the whole `pub mod` item
    pub text: String,
    /// (key, normalised token text) of every item except `use`/`extern crate`
    pub items: Vec<(String, String)>,
    pub uses: Vec<UseDecl>,
}

impl ModBlock {
    pub fn item_keys(&self) -> Vec<String> {
        self.items.iter().map(|(k, _)| k.clone()).collect()
    }
}

fn flatten_use(tree: &syn::UseTree, prefix: &mut Vec<String>, out: &mut Vec<(Vec<String>, String)>) {
    match tree {
        syn::UseTree::Path(p) => {
            prefix.push(p.ident.to_string());
            flatten_use(&p.tree, prefix, out);
            prefix.pop();
        }
        syn::UseTree::Name(n) => out.push((prefix.clone(), n.ident.to_string())),
        syn::UseTree::Rename(r) => out.push((prefix.clone(), r.ident.to_string())),
        syn::UseTree::Glob(_) => out.push((prefix.clone(), "*".to_string())),
        syn::UseTree::Group(g) => {
            for t in &g.items {
                flatten_use(t, prefix, out);
            }
        }
    }
}

fn item_key(item: &syn::Item) -> Option<String> {
    Some(match item {
        syn::Item::Struct(s) => format!("struct {}", s.ident),
        syn::Item::Enum(e) => format!("enum {}", e.ident),
        syn::Item::Const(c) => format!("const {}", c.ident),
        syn::Item::Static(s) => format!("static {}", s.ident),
        syn::Item::Fn(f) => format!("fn {}", f.sig.ident),
        syn::Item::Type(t) => format!("type {}", t.ident),
        syn::Item::Impl(i) => {
            let ty = i.self_ty.to_token_stream().to_string();
            match &i.trait_ {
                Some((_, path, _)) => format!("impl {} for {ty}", path.to_token_stream()),
                None => format!("impl {ty}"),
            }
        }
        syn::Item::Macro(m) => {
            // lazy_static! { pub static ref NAME : T = ..; }  (no_std bindings)
            let toks: Vec<proc_macro2::TokenTree> = m.mac.tokens.clone().into_iter().collect();
            let mut name = None;
            for w in toks.windows(2) {
                if let (proc_macro2::TokenTree::Ident(a), proc_macro2::TokenTree::Ident(b)) = (&w[0], &w[1]) {
                    if a == "ref" {
                        name = Some(b.to_string());
                        break;
                    }
                }
            }
            match name {
                Some(n) => format!("static {n}"),
                None => format!("macro {}", m.mac.path.to_token_stream()),
            }
        }
        syn::Item::Mod(m) => format!("mod {}", m.ident),
        syn::Item::Trait(t) => format!("trait {}", t.ident),
        syn::Item::Use(_) | syn::Item::ExternCrate(_) => return None,
        other => format!("other {}", other.to_token_stream().to_string().chars().take(40).collect::<String>()),
    })
}

/// bare identifier of an item key ("struct Foo" -> "Foo", "impl Foo" -> "Foo")
pub fn key_ident(key: &str) -> String {
    key.rsplit(' ').next().unwrap_or("").to_string()
}

/// Split Rust output into its `pub mod` blocks.
pub fn rust_modules(generated: &str) -> Result<Vec<ModBlock>, String> {
    let file = syn::parse_file(generated).map_err(|e| format!("generated Rust does not parse: {e}"))?;
    let mut out = vec![];
    for item in &file.items {
        let syn::Item::Mod(m) = item else {
            return Err(format!("top-level item that is not a module: {}", item.to_token_stream().to_string().chars().take(80).collect::<String>()));
        };
        let mut block = ModBlock { name: m.ident.to_string(), text: m.to_token_stream().to_string(), ..Default::default() };
        if let Some((_, items)) = &m.content {
            for it in items {
                if let syn::Item::Use(u) = it {
                    let mut flat = vec![];
                    flatten_use(&u.tree, &mut vec![], &mut flat);
                    // group by path
                    let mut by_path: BTreeMap<Vec<String>, BTreeSet<String>> = BTreeMap::new();
                    for (p, n) in flat {
                        by_path.entry(p).or_default().insert(n);
                    }
                    for (path, names) in by_path {
                        block.uses.push(UseDecl { path, names, text: u.to_token_stream().to_string() });
                    }
                } else if let Some(k) = item_key(it) {
                    block.items.push((k, it.to_token_stream().to_string()));
                }
            }
        }
        out.push(block);
    }
    Ok(out)
}

/// Split TypeScript output into its `export namespace X { .. }` blocks (brace matching;
/// the generator emits no braces inside string literals of type definitions).
pub fn ts_namespaces(generated: &str) -> Vec<ModBlock> {
    let mut out = vec![];
    let b = generated.as_bytes();
    let mut i = 0;
    while let Some(pos) = generated[i..].find("export namespace ") {
        let start = i + pos;
        let name_start = start + "export namespace ".len();
        let Some(brace_rel) = generated[name_start..].find('{') else { break };
        let name = generated[name_start..name_start + brace_rel].trim().to_string();
        let mut depth = 0i32;
        let mut j = name_start + brace_rel;
        let mut end = generated.len();
        while j < b.len() {
            match b[j] {
                b'{' => depth += 1,
                b'}' => {
                    depth -= 1;
                    if depth == 0 {
                        end = j + 1;
                        break;
                    }
                }
                _ => {}
            }
            j += 1;
        }
        let text: String = generated[start..end].split_whitespace().collect::<Vec<_>>().join(" ");
        // items: top-level statements of the namespace body, split at depth-1 boundaries
        let body = &generated[name_start + brace_rel + 1..end.saturating_sub(1)];
        let mut items = vec![];
        let mut cur = String::new();
        let mut d = 0i32;
        for line in body.lines() {
            let t = line.trim();
            if t.is_empty() {
                continue;
            }
            if d == 0 && (t.starts_with("export ") || t.starts_with("import ")) && !cur.is_empty() {
                items.push(std::mem::take(&mut cur));
            }
            if !cur.is_empty() {
                cur.push(' ');
            }
            cur.push_str(t);
            d += t.matches('{').count() as i32 - t.matches('}').count() as i32;
        }
        if !cur.is_empty() {
            items.push(cur);
        }
        let mut block = ModBlock { name, text, ..Default::default() };
        for it in items {
            if let Some(rest) = it.strip_prefix("import ") {
                // import X = ns.X;
                let nm = rest.split('=').next().unwrap_or("").trim().to_string();
                let ns = rest.split('=').nth(1).unwrap_or("").trim().trim_end_matches(';').rsplit_once('.').map(|(a, _)| a.to_string()).unwrap_or_default();
                let mut names = BTreeSet::new();
                names.insert(nm);
                block.uses.push(UseDecl { path: vec![ns], names, text: it.clone() });
            } else {
                let words: Vec<&str> = it.split_whitespace().collect();
                // export type X = .. | export interface X { | export enum X { | export const X
                let key = if words.len() >= 3 { format!("{} {}", words[1], words[2].trim_end_matches(|c: char| !c.is_alphanumeric() && c != '_')) } else { it.chars().take(40).collect() };
                block.items.push((key, it));
            }
        }
        out.push(block);
        i = end;
    }
    out
}

pub fn modules_of(generated: &str, rust: bool) -> Result<Vec<ModBlock>, String> {
    if rust {
        rust_modules(generated)
    } else {
        Ok(ts_namespaces(generated))
    }
}
