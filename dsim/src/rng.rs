//! One integer decides everything: xoshiro256** seeded through splitmix64, split by
//! label into independent streams so that minimising one dimension of a plan does not
//! shift the draws of another. Nothing in a logging path draws from it.

#[derive(Clone, Debug)]
pub struct Rng {
    s: [u64; 4],
}

pub fn splitmix64(x: &mut u64) -> u64 {
    *x = x.wrapping_add(0x9e3779b97f4a7c15);
    let mut z = *x;
    z = (z ^ (z >> 30)).wrapping_mul(0xbf58476d1ce4e5b9);
    z = (z ^ (z >> 27)).wrapping_mul(0x94d049bb133111eb);
    z ^ (z >> 31)
}

pub fn fnv1a(bytes: &[u8]) -> u64 {
    let mut h: u64 = 0xcbf29ce484222325;
    for b in bytes {
        h ^= *b as u64;
        h = h.wrapping_mul(0x100000001b3);
    }
    h
}

pub fn mix(a: u64, b: u64) -> u64 {
    let mut x = a ^ b.rotate_left(32) ^ 0x632be59bd9b4e019;
    splitmix64(&mut x)
}

impl Rng {
    pub fn new(seed: u64) -> Self {
        let mut x = seed;
        let s = [
            splitmix64(&mut x),
            splitmix64(&mut x),
            splitmix64(&mut x),
            splitmix64(&mut x),
        ];
        Rng { s }
    }

    /// Independent stream derived from this generator's seed state and a label.
    pub fn fork(&self, label: &str) -> Rng {
        Rng::new(mix(self.s[0] ^ self.s[2], fnv1a(label.as_bytes())))
    }

    pub fn next_u64(&mut self) -> u64 {
        let result = self.s[1].wrapping_mul(5).rotate_left(7).wrapping_mul(9);
        let t = self.s[1] << 17;
        self.s[2] ^= self.s[0];
        self.s[3] ^= self.s[1];
        self.s[1] ^= self.s[2];
        self.s[0] ^= self.s[3];
        self.s[2] ^= t;
        self.s[3] = self.s[3].rotate_left(45);
        result
    }

    /// uniform in 0..n (n > 0)
    pub fn below(&mut self, n: usize) -> usize {
        debug_assert!(n > 0);
        (self.next_u64() % n as u64) as usize
    }

    /// uniform in lo..=hi
    pub fn range(&mut self, lo: i64, hi: i64) -> i64 {
        debug_assert!(lo <= hi);
        let span = (hi - lo) as u64 + 1;
        lo + (self.next_u64() % span) as i64
    }

    pub fn chance(&mut self, num: u32, den: u32) -> bool {
        (self.next_u64() % den as u64) < num as u64
    }

    pub fn pick<'a, T>(&mut self, xs: &'a [T]) -> &'a T {
        &xs[self.below(xs.len())]
    }

    pub fn shuffle<T>(&mut self, xs: &mut [T]) {
        for i in (1..xs.len()).rev() {
            let j = self.below(i + 1);
            xs.swap(i, j);
        }
    }

    pub fn permutation(&mut self, n: usize) -> Vec<usize> {
        let mut p: Vec<usize> = (0..n).collect();
        self.shuffle(&mut p);
        p
    }

    /// pick an index according to integer weights
    pub fn weighted(&mut self, weights: &[u32]) -> usize {
        let total: u64 = weights.iter().map(|w| *w as u64).sum();
        let mut r = self.next_u64() % total.max(1);
        for (i, w) in weights.iter().enumerate() {
            if r < *w as u64 {
                return i;
            }
            r -= *w as u64;
        }
        weights.len() - 1
    }
}
