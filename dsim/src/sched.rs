//! Baton-passing scheduler over real OS threads.
//!
//! Sim threads are real `std::thread`s (so thread-locals are truthful), but exactly one
//! holds the baton and runs; the others are parked on a condvar. At every yield point
//! (an intercepted libc call, a `verif::point` hook in the compiler, an operation
//! boundary, thread exit) the running thread asks the scheduler who runs next. Choices
//! come from the `schedule` PRNG stream and are recorded; a replay feeds the recorded
//! list back and falls back to "stay on the current thread" when it is exhausted.

use crate::rng::{fnv1a, mix, Rng};
use serde::{Deserialize, Serialize};
use std::cell::Cell;
use std::collections::BTreeMap;
use std::sync::{Condvar, Mutex};

#[derive(Clone, Debug, Serialize, Deserialize, PartialEq)]
pub enum Strategy {
    /// switch with probability percent/100 at each yield point, to a uniformly chosen other thread
    Random { percent: u32 },
    /// PCT-style: random priorities, `d` priority change points among the first `horizon` steps
    Pct { d: u32, horizon: u32 },
    /// no interleaving: every thread runs to completion, in PRNG order (pure history)
    RunToCompletion,
}

struct Inner {
    current: i32,
    alive: Vec<bool>,
    rng: Rng,
    strategy: Strategy,
    prio: Vec<u32>,
    change_points: Vec<u64>,
    step: u64,
    recorded: Vec<u8>,
    replay: Option<Vec<u8>>,
    replay_pos: usize,
    sig: u64,
    switches: u64,
    switches_inside: u64,
    in_op: Vec<bool>,
    labels: BTreeMap<String, u64>,
    /// threads the watchdog found blocked inside the code under test (on a lock another sim
    /// thread holds) while they held the baton; cleared when they reach their next yield point
    blocked: Vec<bool>,
    forced_handoffs: u64,
    /// kernel thread ids of the sim threads (for the watchdog's look at /proc)
    os_tid: Vec<i32>,
}

static STATE: Mutex<Option<Inner>> = Mutex::new(None);
static CV: Condvar = Condvar::new();

thread_local! {
    static TID: Cell<i32> = const { Cell::new(-1) };
    /// allocator seam: this sim thread is inside an operation of the code under test
    static ALLOC_ARMED: Cell<bool> = const { Cell::new(false) };
    /// allocator seam: nesting depth of simulator code running on this thread (yield points,
    /// callbacks, harness bookkeeping) — allocations made there are never yield points
    static IN_SIM: Cell<u32> = const { Cell::new(0) };
    static ALLOC_COUNT: Cell<u64> = const { Cell::new(0) };
}

/// Allocator seam: every `ALLOC_EVERY`-th heap allocation a sim thread makes inside an
/// operation is a yield point (0 = off). The heap is the one thing every piece of shared
/// state a change could introduce has to go through sooner or later, so this gives
/// interleavings far below the granularity of hook points and system calls — and the k-th
/// allocation of a deterministic computation is a deterministic place, so it replays.
static ALLOC_EVERY: std::sync::atomic::AtomicU32 = std::sync::atomic::AtomicU32::new(0);

pub fn set_alloc_every(k: u32) {
    ALLOC_EVERY.store(k, std::sync::atomic::Ordering::SeqCst);
}

/// Run simulator code on a sim thread without allocator yield points.
pub fn no_yield<R>(f: impl FnOnce() -> R) -> R {
    let _ = IN_SIM.try_with(|d| d.set(d.get() + 1));
    let r = f();
    let _ = IN_SIM.try_with(|d| d.set(d.get().saturating_sub(1)));
    r
}

/// Called by the global allocator after every allocation.
#[inline]
pub fn alloc_tick() {
    let every = ALLOC_EVERY.load(std::sync::atomic::Ordering::Relaxed);
    if every == 0 {
        return;
    }
    alloc_tick_slow(every);
}

#[cold]
fn alloc_tick_slow(every: u32) {
    let armed = ALLOC_ARMED.try_with(|a| a.get()).unwrap_or(false);
    if !armed || IN_SIM.try_with(|d| d.get()).unwrap_or(1) != 0 {
        return;
    }
    let c = ALLOC_COUNT.try_with(|c| {
        let v = c.get() + 1;
        c.set(v);
        v
    }).unwrap_or(1);
    if c % every as u64 == 0 {
        yield_point("alloc");
    }
}

#[derive(Clone, Debug, Default, Serialize, Deserialize)]
pub struct SchedReport {
    pub schedule: Vec<u8>,
    pub sig: u64,
    pub steps: u64,
    pub switches: u64,
    pub switches_inside: u64,
    pub labels: BTreeMap<String, u64>,
    #[serde(default)]
    pub forced_handoffs: u64,
}

fn lock() -> std::sync::MutexGuard<'static, Option<Inner>> {
    STATE.lock().unwrap_or_else(|e| e.into_inner())
}

/// Install a scheduler for `n` sim threads. `replay` overrides the PRNG.
pub fn install(n: usize, strategy: Strategy, seed: u64, replay: Option<Vec<u8>>) {
    let mut rng = Rng::new(seed);
    let mut prio: Vec<u32> = (0..n as u32).map(|i| i + 100).collect();
    rng.shuffle(&mut prio);
    let mut change_points = vec![];
    if let Strategy::Pct { d, horizon } = &strategy {
        for _ in 0..*d {
            change_points.push(rng.below((*horizon).max(1) as usize) as u64);
        }
    }
    let mut g = lock();
    *g = Some(Inner {
        current: -1,
        alive: vec![true; n],
        rng,
        strategy,
        prio,
        change_points,
        step: 0,
        recorded: vec![],
        replay,
        replay_pos: 0,
        sig: 0xcbf29ce484222325,
        switches: 0,
        switches_inside: 0,
        in_op: vec![false; n],
        labels: BTreeMap::new(),
        blocked: vec![false; n],
        forced_handoffs: 0,
        os_tid: vec![0; n],
    });
}

pub fn uninstall() -> SchedReport {
    let mut g = lock();
    match g.take() {
        Some(i) => SchedReport {
            schedule: i.recorded,
            sig: i.sig,
            steps: i.step,
            switches: i.switches,
            switches_inside: i.switches_inside,
            labels: i.labels,
            forced_handoffs: i.forced_handoffs,
        },
        None => SchedReport::default(),
    }
}

impl Inner {
    fn alive_list(&self) -> Vec<i32> {
        (0..self.alive.len() as i32).filter(|t| self.alive[*t as usize] && !self.blocked[*t as usize]).collect()
    }

    /// who runs next, given that `me` is at a yield point (`me_alive` false at thread exit)
    fn choose(&mut self, me: i32, me_alive: bool) -> i32 {
        let alive = self.alive_list();
        if alive.is_empty() {
            return -1;
        }
        if let Some(rep) = &self.replay {
            let c = if self.replay_pos < rep.len() {
                rep[self.replay_pos] as i32
            } else {
                255
            };
            self.replay_pos += 1;
            if c != 255 && (c as usize) < self.alive.len() && self.alive[c as usize] {
                return c;
            }
            // exhausted or not runnable: stay if possible, else the lowest alive thread
            return if me_alive { me } else { alive[0] };
        }
        match self.strategy.clone() {
            Strategy::Random { percent } => {
                let cands: Vec<i32> =
                    alive.iter().copied().filter(|t| !(me_alive && *t == me)).collect();
                if me_alive && (cands.is_empty() || !self.rng.chance(percent, 100)) {
                    me
                } else {
                    cands[self.rng.below(cands.len())]
                }
            }
            Strategy::Pct { .. } => {
                if me_alive && self.change_points.contains(&self.step) {
                    // demote the running thread below everyone
                    let min = self.prio.iter().copied().min().unwrap_or(1);
                    self.prio[me as usize] = min.saturating_sub(1);
                }
                *alive.iter().max_by_key(|t| self.prio[**t as usize]).unwrap()
            }
            Strategy::RunToCompletion => {
                if me_alive {
                    me
                } else {
                    alive[self.rng.below(alive.len())]
                }
            }
        }
    }
}

/// Called by each sim thread first thing: registers it and waits for the baton.
pub fn thread_enter(tid: i32) {
    TID.with(|t| t.set(tid));
    crate::shim::register_thread(tid);
    let mut g = lock();
    if let Some(i) = g.as_mut() {
        if (tid as usize) < i.os_tid.len() {
            i.os_tid[tid as usize] = unsafe { libc::syscall(libc::SYS_gettid) } as i32;
        }
    }
    loop {
        match g.as_ref() {
            Some(i) if i.current == tid => return,
            None => return,
            _ => {}
        }
        g = CV.wait(g).unwrap_or_else(|e| e.into_inner());
    }
}

/// Called by the harness thread once all sim threads are spawned: hands out the baton.
pub fn start() {
    let mut g = lock();
    if let Some(i) = g.as_mut() {
        let first = i.choose(-1, false);
        i.recorded.push(first as u8);
        i.current = first;
    }
    drop(g);
    CV.notify_all();
}

/// Called by a sim thread when it is done.
pub fn thread_exit() {
    ALLOC_ARMED.with(|a| a.set(false));
    let tid = TID.with(|t| t.get());
    crate::shim::register_thread(-1);
    TID.with(|t| t.set(-1));
    let mut g = lock();
    if let Some(i) = g.as_mut() {
        if tid >= 0 {
            i.alive[tid as usize] = false;
            i.blocked[tid as usize] = false;
            if i.current == tid {
                let next = i.choose(tid, false);
                i.recorded.push(if next < 0 { 255 } else { next as u8 });
                i.current = next;
            }
            // else: a thread that lost the baton to the watchdog while blocked and then ran to
            // its end without another yield point; the baton is not its to pass on
        }
    }
    drop(g);
    CV.notify_all();
}

pub fn set_in_op(flag: bool) {
    let tid = TID.with(|t| t.get());
    if tid < 0 {
        return;
    }
    ALLOC_ARMED.with(|a| a.set(flag));
    if let Some(i) = lock().as_mut() {
        i.in_op[tid as usize] = flag;
    }
}

pub fn current_tid() -> i32 {
    TID.with(|t| t.get())
}

/// A yield point. May hand the baton to another thread and block until it comes back.
pub fn yield_point(label: &str) {
    no_yield(|| yield_point_inner(label))
}

fn yield_point_inner(label: &str) {
    let tid = TID.with(|t| t.get());
    if tid < 0 {
        return;
    }
    let mut g = lock();
    let Some(i) = g.as_mut() else { return };
    if i.current != tid {
        // A sim thread that is not the baton holder: it was blocked inside the code under test
        // when the watchdog passed the baton on, and has just been released. It parks here
        // like any other waiting thread.
        i.blocked[tid as usize] = false;
        if i.current < 0 || !i.alive.get(i.current as usize).copied().unwrap_or(false) {
            // nobody holds the baton any more (everyone else finished): take it
            i.current = tid;
        }
        loop {
            match g.as_ref() {
                Some(i) if i.current == tid => break,
                None => return,
                _ => {}
            }
            g = CV.wait(g).unwrap_or_else(|e| e.into_inner());
        }
        let Some(i) = g.as_mut() else { return };
        i.step += 1;
        let _ = i;
        return;
    }
    i.step += 1;
    i.sig = mix(i.sig, mix(tid as u64, fnv1a(label.as_bytes())));
    match i.labels.get_mut(label) {
        Some(c) => *c += 1,
        None => {
            i.labels.insert(label.to_string(), 1);
        }
    }
    let next = i.choose(tid, true);
    i.recorded.push(next as u8);
    if next != tid {
        i.switches += 1;
        if i.in_op[tid as usize] {
            i.switches_inside += 1;
        }
        i.current = next;
        CV.notify_all();
        loop {
            match g.as_ref() {
                Some(i) if i.current == tid => break,
                None => break,
                _ => {}
            }
            g = CV.wait(g).unwrap_or_else(|e| e.into_inner());
        }
    }
}

/// hook installed into rasn_compiler::verif
pub fn hook_point(label: &'static str) {
    yield_point(label);
}

/// callback installed into the shim: every intercepted call of a sim thread
pub extern "C" fn shim_yield(cls: std::ffi::c_int) {
    // never yield while std holds the stdout lock: another thread writing to stdout
    // would block on that lock while holding the baton.
    if cls as u32 == crate::shim::C_WRITE_STDOUT {
        return;
    }
    let name = crate::shim::CLASS_NAMES.get(cls as usize).copied().unwrap_or("io");
    yield_point(name);
}

/// (steps so far, current holder) — read by the watchdog
pub fn progress() -> (u64, i32) {
    match lock().as_ref() {
        Some(i) => (i.step, i.current),
        None => (0, -1),
    }
}

/// Is the baton holder asleep in the kernel (state S or D in /proc/self/task/<tid>/stat)?
/// A holder that is merely not getting CPU on a busy machine is runnable (R), not asleep.
pub fn holder_is_asleep() -> bool {
    let tid = match lock().as_ref() {
        Some(i) if i.current >= 0 => i.os_tid.get(i.current as usize).copied().unwrap_or(0),
        _ => 0,
    };
    if tid <= 0 {
        return false;
    }
    let Ok(stat) = std::fs::read_to_string(format!("/proc/self/task/{tid}/stat")) else { return false };
    // "<pid> (<comm>) <state> ..."
    match stat.rfind(") ") {
        Some(p) => matches!(stat.as_bytes().get(p + 2), Some(b'S') | Some(b'D')),
        None => false,
    }
}

/// Watchdog: the baton holder consumes no CPU and makes no step — it is blocked inside the
/// code under test, on a lock that a parked sim thread holds (the unchanged compiler has no
/// locks; a change may add one). Real threads would simply wait; under the baton that is a
/// deadlock by construction. Pass the baton on to another runnable thread, chosen by the
/// scheduler. Returns false when there is nobody to pass it to.
pub fn force_handoff() -> bool {
    let mut g = lock();
    let Some(i) = g.as_mut() else { return false };
    let h = i.current;
    if h < 0 {
        return false;
    }
    i.blocked[h as usize] = true;
    let alive = i.alive_list();
    if alive.is_empty() {
        i.blocked[h as usize] = false;
        return false;
    }
    let next = i.choose(h, false);
    i.recorded.push(next as u8);
    i.forced_handoffs += 1;
    i.current = next;
    drop(g);
    CV.notify_all();
    true
}
