//! Rust side of the `simio` seam (see /verif/simio/simio.c). The shim is found through
//! `dlsym(RTLD_DEFAULT, ..)`: it is in the process only when loaded with LD_PRELOAD.

use serde::{Deserialize, Serialize};
use std::ffi::{c_char, c_int, c_void, CString};

// call classes — keep in sync with simio.c
pub const C_OPEN_R: u32 = 0;
pub const C_OPEN_W: u32 = 1;
pub const C_READ: u32 = 2;
pub const C_WRITE: u32 = 3;
pub const C_WRITE_STDOUT: u32 = 4;
pub const C_CLOSE: u32 = 5;
pub const C_STAT: u32 = 6;
pub const C_OPENDIR: u32 = 7;
pub const C_READDIR: u32 = 8;
pub const C_READLINK: u32 = 9;
pub const C_GETRANDOM: u32 = 10;
pub const C_UNLINK: u32 = 11;
pub const C_RENAME: u32 = 12;
pub const C_MKDIR: u32 = 13;
pub const C_OTHER: u32 = 14;
pub const CLASS_NAMES: [&str; 15] = [
    "open_r", "open_w", "read", "write", "write_stdout", "close", "stat", "opendir", "readdir",
    "readlink", "getrandom", "unlink", "rename", "mkdir", "other",
];

// fault kinds — keep in sync with simio.c
pub const F_ERRNO: u32 = 1;
pub const F_SHORT: u32 = 2;
pub const F_EOF: u32 = 3;
pub const F_FLIP: u32 = 4;
pub const F_ZERO: u32 = 5;
pub const F_KILL: u32 = 6;
pub const F_PERM: u32 = 7;
pub const F_GARBLE: u32 = 8;
pub const KIND_NAMES: [&str; 9] = [
    "none", "errno", "short", "eof", "flip", "zero", "kill", "perm", "garble",
];
pub const ANY_ORD: u32 = 0xffff_ffff;

#[derive(Clone, Debug, Serialize, Deserialize, PartialEq)]
pub struct Fault {
    pub cls: u32,
    pub ord: u32,
    pub kind: u32,
    pub a: u64,
    pub b: u64,
}

impl Fault {
    pub fn errno(cls: u32, ord: u32, e: i32) -> Fault {
        Fault { cls, ord, kind: F_ERRNO, a: e as u64, b: 0 }
    }
    pub fn label(&self) -> String {
        let k = KIND_NAMES[self.kind as usize];
        let c = CLASS_NAMES[self.cls as usize];
        match self.kind {
            F_ERRNO => format!("{c}:{}", errno_name(self.a as i32)),
            F_SHORT if self.a == 0 => format!("{c}:zero"),
            _ => format!("{c}:{k}"),
        }
    }
    pub fn describe(&self) -> String {
        let ord = if self.ord == ANY_ORD { "*".to_string() } else { self.ord.to_string() };
        format!("{}#{} a={} b={}", self.label(), ord, self.a, self.b)
    }
    pub fn env_token(&self) -> String {
        format!("f={}:{}:{}:{}:{}", self.cls, self.ord, self.kind, self.a, self.b)
    }
}

pub fn errno_name(e: i32) -> &'static str {
    match e {
        libc::EINTR => "EINTR",
        libc::EIO => "EIO",
        libc::EACCES => "EACCES",
        libc::ENOENT => "ENOENT",
        libc::EMFILE => "EMFILE",
        libc::EISDIR => "EISDIR",
        libc::ENOSPC => "ENOSPC",
        libc::EDQUOT => "EDQUOT",
        libc::EROFS => "EROFS",
        libc::EPIPE => "EPIPE",
        libc::ENOTDIR => "ENOTDIR",
        libc::EAGAIN => "EAGAIN",
        libc::ENOMEM => "ENOMEM",
        libc::ELOOP => "ELOOP",
        libc::ENAMETOOLONG => "ENAMETOOLONG",
        _ => "E?",
    }
}

type YieldCb = extern "C" fn(c_int);

struct Api {
    reset: unsafe extern "C" fn(),
    set_root: unsafe extern "C" fn(*const c_char),
    add_fault: unsafe extern "C" fn(u32, u32, u32, u64, u64) -> c_int,
    set_kill_at: unsafe extern "C" fn(u64),
    set_entropy: unsafe extern "C" fn(u64),
    set_yield: unsafe extern "C" fn(Option<YieldCb>),
    arm: unsafe extern "C" fn(c_int),
    register_thread: unsafe extern "C" fn(c_int),
    log: unsafe extern "C" fn(*mut usize) -> *const c_char,
    note: unsafe extern "C" fn(*const c_char),
    fault_fired: unsafe extern "C" fn(c_int) -> u32,
    unmodelled: unsafe extern "C" fn() -> u32,
    log_overflow: unsafe extern "C" fn() -> c_int,
}

static API: std::sync::OnceLock<Option<Api>> = std::sync::OnceLock::new();

unsafe fn sym<T: Copy>(name: &str) -> Option<T> {
    let c = CString::new(name).unwrap();
    let p = libc::dlsym(libc::RTLD_DEFAULT, c.as_ptr());
    if p.is_null() {
        None
    } else {
        Some(std::mem::transmute_copy::<*mut c_void, T>(&p))
    }
}

fn api() -> &'static Api {
    API.get_or_init(|| unsafe {
        Some(Api {
            reset: sym("simio_reset")?,
            set_root: sym("simio_set_root")?,
            add_fault: sym("simio_add_fault")?,
            set_kill_at: sym("simio_set_kill_at")?,
            set_entropy: sym("simio_set_entropy")?,
            set_yield: sym("simio_set_yield")?,
            arm: sym("simio_arm")?,
            register_thread: sym("simio_register_thread")?,
            log: sym("simio_log")?,
            note: sym("simio_note")?,
            fault_fired: sym("simio_fault_fired")?,
            unmodelled: sym("simio_unmodelled")?,
            log_overflow: sym("simio_log_overflow")?,
        })
    })
    .as_ref()
    .expect("libsimio.so is not preloaded (LD_PRELOAD)")
}

pub fn present() -> bool {
    unsafe { sym::<unsafe extern "C" fn() -> c_int>("simio_present").is_some() }
}

pub fn reset() {
    unsafe { (api().reset)() }
}
pub fn set_root(root: &str) {
    let c = CString::new(root).unwrap();
    unsafe { (api().set_root)(c.as_ptr()) }
}
pub fn add_fault(f: &Fault) {
    let r = unsafe { (api().add_fault)(f.cls, f.ord, f.kind, f.a, f.b) };
    assert!(r == 0, "too many faults for the shim");
}
pub fn set_kill_at(seq: u64) {
    unsafe { (api().set_kill_at)(seq) }
}
pub fn set_entropy(seed: u64) {
    unsafe { (api().set_entropy)(seed) }
}
pub fn set_yield(cb: Option<YieldCb>) {
    unsafe { (api().set_yield)(cb) }
}
pub fn arm(on: bool) {
    unsafe { (api().arm)(on as c_int) }
}
pub fn register_thread(tid: i32) {
    unsafe { (api().register_thread)(tid) }
}
pub fn note(s: &str) {
    let c = CString::new(s.replace('\0', "?")).unwrap();
    unsafe { (api().note)(c.as_ptr()) }
}
pub fn fault_fired(i: usize) -> u32 {
    unsafe { (api().fault_fired)(i as c_int) }
}
pub fn unmodelled() -> u32 {
    unsafe { (api().unmodelled)() }
}
pub fn log_overflow() -> bool {
    unsafe { (api().log_overflow)() != 0 }
}
pub fn log_text() -> String {
    let mut n: usize = 0;
    unsafe {
        let p = (api().log)(&mut n as *mut usize);
        let s = std::slice::from_raw_parts(p as *const u8, n);
        String::from_utf8_lossy(s).into_owned()
    }
}

/// One parsed line of the shim's event log.
#[derive(Clone, Debug, Serialize, Deserialize)]
pub struct Event {
    pub seq: u64,
    pub tid: i32,
    pub call: String, // class name, or "note"
    pub ord: u32,
    pub path: String,
    pub flags: u64,
    pub req: i64,
    pub res: i64,
    pub errno: i32,
    pub fault: String,
}

impl Event {
    pub fn is_mutating(&self) -> bool {
        matches!(self.call.as_str(), "open_w" | "write" | "unlink" | "rename" | "mkdir")
    }
}

pub fn parse_log(text: &str) -> Vec<Event> {
    let mut out = vec![];
    for line in text.lines() {
        let mut it = line.split(' ');
        let seq = it.next().and_then(|s| s.parse().ok()).unwrap_or(0);
        let second = it.next().unwrap_or("");
        if second == "KILL" {
            out.push(Event {
                seq, tid: -1, call: "KILL".into(), ord: 0, path: String::new(), flags: 0, req: 0,
                res: 0, errno: 0, fault: "kill".into(),
            });
            continue;
        }
        let tid = second.trim_start_matches('t').parse().unwrap_or(-1);
        let callord = it.next().unwrap_or("");
        if callord == "note" {
            let rest: Vec<&str> = it.collect();
            out.push(Event {
                seq, tid, call: "note".into(), ord: 0, path: rest.join(" "), flags: 0, req: 0,
                res: 0, errno: 0, fault: "none".into(),
            });
            continue;
        }
        let (call, ord) = match callord.split_once('#') {
            Some((c, o)) => (c.to_string(), o.parse().unwrap_or(0)),
            None => (callord.to_string(), 0),
        };
        let path = it.next().unwrap_or("").to_string();
        let mut ev = Event {
            seq, tid, call, ord, path, flags: 0, req: 0, res: 0, errno: 0, fault: "none".into(),
        };
        for kv in it {
            if let Some((k, v)) = kv.split_once('=') {
                match k {
                    "fl" => ev.flags = v.parse().unwrap_or(0),
                    "req" => ev.req = v.parse().unwrap_or(0),
                    "res" => ev.res = v.parse().unwrap_or(0),
                    "errno" => ev.errno = v.parse().unwrap_or(0),
                    "fault" => ev.fault = v.to_string(),
                    _ => {}
                }
            }
        }
        out.push(ev);
    }
    out
}

pub fn env_plan(root: &str, entropy: u64, faults: &[Fault], kill_at: Option<u64>) -> String {
    let mut s = format!("root={root};ent={entropy}");
    if let Some(k) = kill_at {
        s.push_str(&format!(";kill={k}"));
    }
    for f in faults {
        s.push(';');
        s.push_str(&f.env_token());
    }
    s
}
