//! One simulated run: arm the shim with the fault plan and the entropy stream, install
//! the scheduler and the compiler hooks, run the sim threads, collect the event log.

use crate::sched::{self, SchedReport, Strategy};
use crate::shim::{self, Event, Fault};
use serde::{Deserialize, Serialize};
use std::sync::Mutex;

#[derive(Clone, Debug, Serialize, Deserialize, PartialEq)]
pub struct SimCfg {
    pub stack_kb: usize,
    pub strategy: Strategy,
    pub sched_seed: u64,
    pub entropy: u64,
    pub faults: Vec<Fault>,
    pub kill_at: Option<u64>,
    /// (site, definition name) pairs at which `verif::buggify` answers true
    pub buggify: Vec<(String, String)>,
    pub capture_stdout: bool,
    /// allocator seam: every k-th heap allocation of a sim thread inside an operation is a
    /// yield point (0 = off)
    #[serde(default)]
    pub alloc_yield: u32,
}

impl SimCfg {
    pub fn simple(seed: u64) -> SimCfg {
        SimCfg {
            stack_kb: 8192,
            strategy: Strategy::RunToCompletion,
            sched_seed: seed,
            entropy: seed ^ 0x5eed,
            faults: vec![],
            kill_at: None,
            buggify: vec![],
            capture_stdout: false,
            alloc_yield: 0,
        }
    }
}

#[derive(Clone, Debug, Default)]
pub struct SimReport {
    pub sched: SchedReport,
    pub events: Vec<Event>,
    pub log_text: String,
    pub fired: Vec<u32>,
    pub buggify_fired: Vec<(String, String)>,
    pub unmodelled: u32,
    pub overflow: bool,
    pub stdout: Vec<u8>,
    pub stdout_flush_err: Option<String>,
    pub thread_panicked: Vec<usize>,
}

static BUGGIFY: Mutex<(Vec<(String, String)>, Vec<(String, String)>)> = Mutex::new((Vec::new(), Vec::new()));

fn buggify_cb(site: &'static str, name: &str) -> bool {
    sched::no_yield(|| buggify_cb_inner(site, name))
}

fn buggify_cb_inner(site: &'static str, name: &str) -> bool {
    let mut g = BUGGIFY.lock().unwrap_or_else(|e| e.into_inner());
    let hit = g.0.iter().any(|(s, n)| s == site && n == name);
    if hit {
        g.1.push((site.to_string(), name.to_string()));
    }
    hit
}

struct ExitGuard;
impl Drop for ExitGuard {
    fn drop(&mut self) {
        sched::thread_exit();
    }
}

pub type Body<R> = Box<dyn FnOnce() -> R + Send>;

/// Run `bodies` as sim threads (thread i = tid i) under the baton.
pub fn run_sim<R: Send + 'static>(
    cfg: &SimCfg,
    schedule: Option<Vec<u8>>,
    root: &str,
    bodies: Vec<Body<R>>,
) -> (Vec<Option<R>>, SimReport) {
    use std::io::Write;
    shim::reset();
    shim::set_root(root);
    shim::set_entropy(cfg.entropy);
    for f in &cfg.faults {
        shim::add_fault(f);
    }
    if let Some(k) = cfg.kill_at {
        shim::set_kill_at(k);
    }
    {
        let mut g = BUGGIFY.lock().unwrap_or_else(|e| e.into_inner());
        g.0 = cfg.buggify.clone();
        g.1.clear();
    }
    rasn_compiler::verif::set_point(Some(sched::hook_point));
    rasn_compiler::verif::set_buggify(Some(buggify_cb));
    shim::set_yield(Some(sched::shim_yield));

    // stdout capture: fd 1 -> a file under the root (outside the shim's view: opened before arming)
    let mut saved_stdout = -1;
    let cap_path = format!("{root}/.stdout-capture");
    if cfg.capture_stdout {
        let _ = std::io::stdout().flush();
        unsafe {
            saved_stdout = libc::dup(1);
            let c = std::ffi::CString::new(cap_path.clone()).unwrap();
            let fd = libc::open(c.as_ptr(), libc::O_WRONLY | libc::O_CREAT | libc::O_TRUNC, 0o644);
            assert!(fd >= 0, "cannot open stdout capture file");
            libc::dup2(fd, 1);
            libc::close(fd);
        }
    }

    let n = bodies.len();
    sched::install(n, cfg.strategy.clone(), cfg.sched_seed, schedule);
    sched::set_alloc_every(cfg.alloc_yield);
    shim::arm(true);
    let mut handles = vec![];
    for (tid, body) in bodies.into_iter().enumerate() {
        let h = std::thread::Builder::new()
            .name(format!("sim{tid}"))
            .stack_size(cfg.stack_kb * 1024)
            .spawn(move || {
                sched::thread_enter(tid as i32);
                let _g = ExitGuard;
                body()
            })
            .expect("spawn sim thread");
        handles.push(h);
    }
    sched::start();
    // ---- watchdog: wait for the sim threads; un-wedge the baton when its holder blocks on a
    // lock held by a parked thread; give up on a run in which every thread is blocked
    let mut last = (sched::progress(), cpu_ms());
    let mut stalled_since: Option<std::time::Instant> = None;
    while !handles.iter().all(|h| h.is_finished()) {
        std::thread::sleep(std::time::Duration::from_millis(5));
        let now = (sched::progress(), cpu_ms());
        // stalled = no scheduler step, (almost) no CPU consumed by the sim threads, AND the baton
        // holder is asleep in the kernel — on a busy machine a holder that merely waits for a
        // core is runnable, and must never be mistaken for a blocked one
        let quiet = now.0 == last.0 && now.1.saturating_sub(last.1) < 2;
        // (the look at /proc is taken only once things have been quiet for a while)
        let idle = quiet && (stalled_since.is_none() || stalled_since.is_some_and(|t| t.elapsed().as_millis() < 40) || sched::holder_is_asleep());
        if !idle {
            last = now;
            stalled_since = None;
            continue;
        }
        let since = *stalled_since.get_or_insert_with(std::time::Instant::now);
        let waited = since.elapsed().as_millis();
        if waited >= 150 && n > 1 && waited < 20_000 {
            if sched::force_handoff() {
                stalled_since = None;
                last = (sched::progress(), cpu_ms());
            }
        }
        if waited >= 20_000 && !has_subprocess() {
            // every sim thread is blocked and nothing consumes CPU: a genuine deadlock
            crate::proc::abort_child_with(
                "{\"violations\":[],\"inconclusive\":[\"all sim threads blocked for 20 s without consuming CPU (deadlock inside the code under test, or between it and the scheduler)\"],\"counters\":{\"deadlocked_runs\":1},\"sigs\":[],\"steps\":0,\"schedule\":[],\"log_hash\":0,\"sample\":null,\"harness_error\":null,\"trace\":null}",
            );
        }
    }
    let mut results = vec![];
    let mut thread_panicked = vec![];
    for (i, h) in handles.into_iter().enumerate() {
        match h.join() {
            Ok(r) => results.push(Some(r)),
            Err(_) => {
                results.push(None);
                thread_panicked.push(i);
            }
        }
    }
    sched::set_alloc_every(0);
    let report = sched::uninstall();

    // what process exit would do: flush std's stdout buffer (through the seam, on a sim "thread")
    let mut stdout_flush_err = None;
    let mut stdout_bytes = vec![];
    if cfg.capture_stdout {
        shim::register_thread(0);
        if let Err(e) = std::io::stdout().flush() {
            stdout_flush_err = Some(e.to_string());
        }
        shim::register_thread(-1);
    }
    shim::arm(false);
    shim::set_yield(None);
    rasn_compiler::verif::set_point(None);
    rasn_compiler::verif::set_buggify(None);
    if cfg.capture_stdout {
        unsafe {
            libc::dup2(saved_stdout, 1);
            libc::close(saved_stdout);
        }
        stdout_bytes = std::fs::read(&cap_path).unwrap_or_default();
        let _ = std::fs::remove_file(&cap_path);
    }

    let log_text = shim::log_text();
    let events = shim::parse_log(&log_text);
    let fired = (0..cfg.faults.len()).map(shim::fault_fired).collect();
    let buggify_fired = BUGGIFY.lock().unwrap_or_else(|e| e.into_inner()).1.clone();
    (
        results,
        SimReport {
            sched: report,
            events,
            log_text,
            fired,
            buggify_fired,
            unmodelled: shim::unmodelled(),
            overflow: shim::log_overflow(),
            stdout: stdout_bytes,
            stdout_flush_err,
            thread_panicked,
        },
    )
}

/// Mark the extent of one operation (so that the scheduler can tell whether a context
/// switch landed inside a compilation) and yield at its boundaries.
pub fn op_begin(label: &str) {
    sched::yield_point("op:begin");
    shim::note(&format!("op-begin {label}"));
    sched::set_in_op(true);
}
pub fn op_end(label: &str) {
    sched::set_in_op(false);
    shim::note(&format!("op-end {label}"));
    sched::yield_point("op:end");
}

/// CPU time consumed by all OTHER threads of this process, in milliseconds (the watchdog's
/// own polling must not look like progress)
fn cpu_ms() -> u64 {
    unsafe {
        let mut p: libc::timespec = std::mem::zeroed();
        let mut t: libc::timespec = std::mem::zeroed();
        libc::clock_gettime(libc::CLOCK_PROCESS_CPUTIME_ID, &mut p);
        libc::clock_gettime(libc::CLOCK_THREAD_CPUTIME_ID, &mut t);
        let us = |x: &libc::timespec| x.tv_sec as u64 * 1_000_000 + x.tv_nsec as u64 / 1000;
        us(&p).saturating_sub(us(&t)) / 1000
    }
}

/// scenarios with a subprocess (formatter, CLI) legitimately sit idle while the child works
static HAS_SUBPROCESS: std::sync::atomic::AtomicBool = std::sync::atomic::AtomicBool::new(false);
pub fn set_has_subprocess(v: bool) {
    HAS_SUBPROCESS.store(v, std::sync::atomic::Ordering::Relaxed);
}
fn has_subprocess() -> bool {
    HAS_SUBPROCESS.load(std::sync::atomic::Ordering::Relaxed)
}
