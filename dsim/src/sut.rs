//! The one place where the system under test is called: the public API of
//! `rasn_compiler` (real code, built from /repo's working tree), under `catch_unwind`.

use rasn_compiler::prelude::*;
use rasn_compiler::OutputMode;
use serde::{Deserialize, Serialize};
use std::panic::{catch_unwind, AssertUnwindSafe};
use std::sync::Mutex;

#[derive(Clone, Debug, Serialize, Deserialize, PartialEq, Default)]
pub struct RasnCfg {
    pub opaque_open_types: bool,
    pub default_wildcard_imports: bool,
    pub generate_from_impls: bool,
    pub no_std: bool,
    pub custom_imports: Vec<String>,
    /// None = the default annotation list
    pub type_annotations: Option<Vec<String>>,
}

impl RasnCfg {
    pub fn default_cfg() -> RasnCfg {
        RasnCfg { opaque_open_types: true, ..Default::default() }
    }
    pub fn to_config(&self) -> RasnConfig {
        let d = RasnConfig::default();
        RasnConfig {
            opaque_open_types: self.opaque_open_types,
            default_wildcard_imports: self.default_wildcard_imports,
            generate_from_impls: self.generate_from_impls,
            no_std_compliant_bindings: self.no_std,
            custom_imports: self.custom_imports.clone(),
            type_annotations: self.type_annotations.clone().unwrap_or(d.type_annotations),
        }
    }
    pub fn random(rng: &mut crate::rng::Rng) -> RasnCfg {
        let imports: &[&[&str]] = &[&[], &[], &["std::fmt::*"], &["my::module::*", "path::to::Thing"]];
        let annots: &[Option<&[&str]>] = &[
            None,
            None,
            Some(&["#[derive(AsnType, Debug, Clone, Decode, Encode, PartialEq)]"]),
            Some(&["#[derive(Serialize)]", "#[serde(rename_all = \"camelCase\")]"]),
        ];
        RasnCfg {
            opaque_open_types: rng.chance(3, 4),
            default_wildcard_imports: rng.chance(1, 4),
            generate_from_impls: rng.chance(1, 3),
            no_std: rng.chance(1, 4),
            custom_imports: rng.pick(imports).iter().map(|s| s.to_string()).collect(),
            type_annotations: rng.pick(annots).map(|a| a.iter().map(|s| s.to_string()).collect()),
        }
    }
}

#[derive(Clone, Debug, Serialize, Deserialize, PartialEq)]
pub enum BackendSel {
    Rasn(RasnCfg),
    Ts,
}

impl BackendSel {
    pub fn ext(&self) -> &'static str {
        match self {
            BackendSel::Rasn(_) => ".rs",
            BackendSel::Ts => ".ts",
        }
    }
    pub fn short(&self) -> &'static str {
        match self {
            BackendSel::Rasn(_) => "rasn",
            BackendSel::Ts => "ts",
        }
    }
    pub fn random(rng: &mut crate::rng::Rng) -> BackendSel {
        if rng.chance(1, 3) {
            BackendSel::Ts
        } else if rng.chance(1, 2) {
            BackendSel::Rasn(RasnCfg::default_cfg())
        } else {
            BackendSel::Rasn(RasnCfg::random(rng))
        }
    }
}

#[derive(Clone, Debug, Serialize, Deserialize, PartialEq)]
pub enum Src {
    Literal(String),
    /// a path; the sequence `{xHH}` stands for the raw byte HH, so that plans (JSON, UTF-8) can name
    /// files whose names are NOT valid UTF-8 — see [`real_path`]
    Path(String),
}

/// The path a plan's string names: `{xHH}` becomes the raw byte HH (file names are byte strings;
/// a Latin-1 name on a UTF-8 system is an ordinary thing to meet).
pub fn real_path(p: &str) -> std::path::PathBuf {
    use std::os::unix::ffi::OsStringExt;
    let b = p.as_bytes();
    let mut out = Vec::with_capacity(b.len());
    let mut i = 0;
    while i < b.len() {
        if b[i] == b'{' && i + 5 <= b.len() && b[i + 1] == b'x' && b[i + 4] == b'}' {
            if let Ok(v) = u8::from_str_radix(&p[i + 2..i + 4], 16) {
                out.push(v);
                i += 5;
                continue;
            }
        }
        out.push(b[i]);
        i += 1;
    }
    std::path::PathBuf::from(std::ffi::OsString::from_vec(out))
}

#[derive(Clone, Debug, Serialize, Deserialize, PartialEq)]
pub enum OutSel {
    File(String),
    Stdout,
    NoOutput,
}

/// how the typestate builder is driven
#[derive(Clone, Debug, Serialize, Deserialize, PartialEq, Default)]
pub struct BuilderPath {
    /// set the output mode before the first source
    pub output_first: bool,
    /// hand all path sources over in one `add_asn_sources_by_path` call where possible
    pub batch_paths: bool,
    /// construct with another backend first and swap with `with_backend`
    pub swap_backend: bool,
    /// (with swap_backend) swap as LATE as the builder allows: after the output mode and the
    /// sources have been set, right before `compile()`
    #[serde(default)]
    pub swap_late: bool,
    /// name a file/directory destination through the deprecated `set_output_path` instead of
    /// `set_output_mode(OutputMode::SingleFile(..))` (documented as equivalent)
    #[serde(default)]
    pub legacy_path: bool,
    /// set the output mode in the MIDDLE: after the first source; the remaining sources are then
    /// added to a builder that is already complete (`Compiler<_, CompilerReady>::add_*`)
    #[serde(default)]
    pub output_mid: bool,
}

#[derive(Clone, Debug, Serialize, Deserialize, PartialEq, Default)]
pub struct Report {
    pub src_file: Option<String>,
    pub context_start_line: usize,
    pub context_start_offset: usize,
    pub line: usize,
    pub offset: usize,
    pub column: usize,
    pub reason: String,
    pub unexpected_eof: bool,
}

#[derive(Clone, Debug, Serialize, Deserialize, PartialEq, Default)]
pub struct CompileOut {
    pub ok: bool,
    pub generated: String,
    pub warnings: Vec<String>,
    pub err: Option<String>,
    /// "lexer-matching", "lexer-io", "lexer-eof", "grammar", "linker", "generator-io", "generator"
    pub err_kind: Option<String>,
    pub report: Option<Report>,
    pub panic: Option<String>,
}

impl CompileOut {
    pub fn sorted_warnings(&self) -> Vec<String> {
        let mut w = self.warnings.clone();
        w.sort();
        w
    }
    pub fn brief(&self) -> String {
        if let Some(p) = &self.panic {
            format!("PANIC {p}")
        } else if self.ok {
            format!("Ok({} bytes, {} warnings)", self.generated.len(), self.warnings.len())
        } else {
            format!("Err[{}]({})", self.err_kind.clone().unwrap_or_default(), self.err.clone().unwrap_or_default())
        }
    }
}

static PANICS: Mutex<Vec<String>> = Mutex::new(Vec::new());

pub fn install_panic_hook() {
    std::panic::set_hook(Box::new(|info| crate::sched::no_yield(|| {
        let loc = info
            .location()
            .map(|l| format!("{}:{}", l.file(), l.line()))
            .unwrap_or_else(|| "?".into());
        let msg = if let Some(s) = info.payload().downcast_ref::<&str>() {
            s.to_string()
        } else if let Some(s) = info.payload().downcast_ref::<String>() {
            s.clone()
        } else {
            "<non-string payload>".into()
        };
        let tid = crate::sched::current_tid();
        PANICS
            .lock()
            .unwrap_or_else(|e| e.into_inner())
            .push(format!("t{tid} {loc}: {msg}"));
    })));
}

fn take_panic() -> String {
    crate::sched::no_yield(take_panic_inner)
}

fn take_panic_inner() -> String {
    let tid = crate::sched::current_tid();
    let mut g = PANICS.lock().unwrap_or_else(|e| e.into_inner());
    let prefix = format!("t{tid} ");
    if let Some(pos) = g.iter().rposition(|p| p.starts_with(&prefix)) {
        let p = g.remove(pos);
        p[prefix.len()..].to_string()
    } else {
        "<panic without record>".into()
    }
}

pub fn classify(e: &CompilerError) -> (String, Option<Report>) {
    match e {
        CompilerError::Lexer(l) => match &l.kind {
            LexerErrorType::MatchingError(r) => (
                "lexer-matching".into(),
                Some(Report {
                    src_file: r.src_file.clone(),
                    context_start_line: r.context_start_line,
                    context_start_offset: r.context_start_offset,
                    line: r.line,
                    offset: r.offset,
                    column: r.column,
                    reason: r.reason.clone(),
                    unexpected_eof: r.unexpected_eof,
                }),
            ),
            LexerErrorType::IO(_) => ("lexer-io".into(), None),
            LexerErrorType::NotEnoughData(_) => ("lexer-eof".into(), None),
        },
        CompilerError::Grammar(_) => ("grammar".into(), None),
        CompilerError::Linker(_) => ("linker".into(), None),
        CompilerError::Generator(g) => {
            if g.kind == GeneratorErrorType::IO {
                ("generator-io".into(), None)
            } else {
                ("generator".into(), None)
            }
        }
    }
}

fn from_result(r: Result<CompileResult, CompilerError>) -> (CompileOut, Vec<CompilerError>, Option<CompilerError>) {
    match r {
        Ok(res) => (
            CompileOut {
                ok: true,
                generated: res.generated,
                warnings: res.warnings.iter().map(|w| w.to_string()).collect(),
                ..Default::default()
            },
            res.warnings,
            None,
        ),
        Err(e) => {
            let (kind, report) = classify(&e);
            (
                CompileOut {
                    ok: false,
                    err: Some(e.to_string()),
                    err_kind: Some(kind),
                    report,
                    ..Default::default()
                },
                vec![],
                Some(e),
            )
        }
    }
}

fn add_sources<B: Backend>(
    c: Compiler<B, CompilerMissingParams>,
    srcs: &[Src],
    bp: &BuilderPath,
) -> Option<Compiler<B, CompilerSourcesSet>> {
    if srcs.is_empty() {
        return None;
    }
    let all_paths = srcs.iter().all(|s| matches!(s, Src::Path(_)));
    if bp.batch_paths && all_paths {
        return Some(c.add_asn_sources_by_path(srcs.iter().map(|s| match s {
            Src::Path(p) => real_path(p),
            _ => unreachable!(),
        })));
    }
    let mut cur = match &srcs[0] {
        Src::Literal(l) => c.add_asn_literal(l.clone()),
        Src::Path(p) => c.add_asn_by_path(real_path(p)),
    };
    let mut i = 1;
    while i < srcs.len() {
        match &srcs[i] {
            Src::Literal(l) => {
                cur = cur.add_asn_literal(l.clone());
                i += 1;
            }
            Src::Path(_) if bp.batch_paths => {
                let mut j = i;
                let mut batch = vec![];
                while j < srcs.len() {
                    if let Src::Path(p) = &srcs[j] {
                        batch.push(real_path(p));
                        j += 1;
                    } else {
                        break;
                    }
                }
                cur = cur.add_asn_sources_by_path(batch.into_iter());
                i = j;
            }
            Src::Path(p) => {
                cur = cur.add_asn_by_path(real_path(p));
                i += 1;
            }
        }
    }
    Some(cur)
}

fn add_sources_ready<B: Backend>(
    c: Compiler<B, CompilerOutputSet>,
    srcs: &[Src],
    bp: &BuilderPath,
) -> Option<Compiler<B, CompilerReady>> {
    if srcs.is_empty() {
        return None;
    }
    let all_paths = srcs.iter().all(|s| matches!(s, Src::Path(_)));
    if bp.batch_paths && all_paths {
        return Some(c.add_asn_sources_by_path(srcs.iter().map(|s| match s {
            Src::Path(p) => real_path(p),
            _ => unreachable!(),
        })));
    }
    let cur = match &srcs[0] {
        Src::Literal(l) => c.add_asn_literal(l.clone()),
        Src::Path(p) => c.add_asn_by_path(real_path(p)),
    };
    Some(add_more_ready(cur, &srcs[1..], bp))
}

/// add sources to a builder that is already complete; consecutive paths in one
/// `add_asn_sources_by_path` call when `batch_paths`
fn add_more_ready<B: Backend>(mut cur: Compiler<B, CompilerReady>, srcs: &[Src], bp: &BuilderPath) -> Compiler<B, CompilerReady> {
    let mut i = 0;
    while i < srcs.len() {
        match &srcs[i] {
            Src::Literal(l) => {
                cur = cur.add_asn_literal(l.clone());
                i += 1;
            }
            Src::Path(_) if bp.batch_paths => {
                let mut batch = vec![];
                while let Some(Src::Path(p)) = srcs.get(i) {
                    batch.push(real_path(p));
                    i += 1;
                }
                cur = cur.add_asn_sources_by_path(batch.into_iter());
            }
            Src::Path(p) => {
                cur = cur.add_asn_by_path(real_path(p));
                i += 1;
            }
        }
    }
    cur
}

fn out_mode(o: &OutSel) -> OutputMode {
    match o {
        OutSel::File(p) => OutputMode::SingleFile(p.into()),
        OutSel::Stdout => OutputMode::Stdout,
        OutSel::NoOutput => OutputMode::NoOutput,
    }
}

fn to_string_with<B: Backend>(
    c: Compiler<B, CompilerMissingParams>,
    srcs: &[Src],
    bp: &BuilderPath,
) -> Result<CompileResult, CompilerError> {
    if bp.output_mid && srcs.len() >= 2 {
        let first = add_sources(c, &srcs[..1], bp).expect("no sources").set_output_mode(OutputMode::NoOutput);
        add_more_ready(first, &srcs[1..], bp).compile_to_string()
    } else if bp.output_first {
        add_sources_ready(c.set_output_mode(OutputMode::NoOutput), srcs, bp)
            .expect("no sources")
            .compile_to_string()
    } else {
        add_sources(c, srcs, bp).expect("no sources").compile_to_string()
    }
}

fn ready_with<B: Backend>(
    c: Compiler<B, CompilerMissingParams>,
    srcs: &[Src],
    out: &OutSel,
    bp: &BuilderPath,
    between: &dyn Fn(),
) -> Compiler<B, CompilerReady> {
    #[allow(deprecated)]
    let ready = match (bp.legacy_path, out) {
        _ if bp.output_mid && srcs.len() >= 2 => {
            let first = add_sources(c, &srcs[..1], bp).expect("no sources");
            let first = match (bp.legacy_path, out) {
                (true, OutSel::File(path)) => first.set_output_path(path.clone()),
                _ => first.set_output_mode(out_mode(out)),
            };
            add_more_ready(first, &srcs[1..], bp)
        }
        (true, OutSel::File(path)) if bp.output_first => {
            add_sources_ready(c.set_output_path(path.clone()), srcs, bp).expect("no sources")
        }
        (true, OutSel::File(path)) => add_sources(c, srcs, bp).expect("no sources").set_output_path(path.clone()),
        _ if bp.output_first => add_sources_ready(c.set_output_mode(out_mode(out)), srcs, bp).expect("no sources"),
        _ => add_sources(c, srcs, bp).expect("no sources").set_output_mode(out_mode(out)),
    };
    between();
    ready
}

/// Render every returned error or warning the way a user would: Display and
/// contextualize (against each literal source and each readable path source).
fn render_all(errors: &[&CompilerError], srcs_text: &[String]) {
    for e in errors {
        let _ = e.to_string();
        for t in srcs_text {
            let _ = e.contextualize(t);
        }
    }
}

pub fn compile_to_string(backend: &BackendSel, srcs: &[Src], bp: &BuilderPath) -> CompileOut {
    compile_to_string_render(backend, srcs, bp, &[])
}

/// compile_to_string, then render all errors/warnings against `render_against`
pub fn compile_to_string_render(
    backend: &BackendSel,
    srcs: &[Src],
    bp: &BuilderPath,
    render_against: &[String],
) -> CompileOut {
    compile_to_string_render_gated(backend, srcs, bp, render_against, &|| true)
}

/// As above; `gate` is evaluated after the compilation and decides whether `contextualize`
/// is called with `render_against` (Display is always rendered). Used when the text the
/// compiler saw came through the simulated disk and the harness must first make sure that
/// `render_against` really is that text.
pub fn compile_to_string_render_gated(
    backend: &BackendSel,
    srcs: &[Src],
    bp: &BuilderPath,
    render_against: &[String],
    gate: &dyn Fn() -> bool,
) -> CompileOut {
    let r = catch_unwind(AssertUnwindSafe(|| {
        let res = match backend {
            BackendSel::Rasn(cfg) => {
                if bp.swap_backend {
                    let c = Compiler::<TypescriptBackend, _>::new()
                        .with_backend(RasnBackend::from_config(cfg.to_config()));
                    to_string_with(c, srcs, bp)
                } else {
                    to_string_with(Compiler::<RasnBackend, _>::new_with_config(cfg.to_config()), srcs, bp)
                }
            }
            BackendSel::Ts => {
                if bp.swap_backend {
                    let c = Compiler::<RasnBackend, _>::new().with_backend(TypescriptBackend::default());
                    to_string_with(c, srcs, bp)
                } else {
                    to_string_with(Compiler::<TypescriptBackend, _>::new(), srcs, bp)
                }
            }
        };
        let (out, warnings, err) = from_result(res);
        let mut all: Vec<&CompilerError> = warnings.iter().collect();
        if let Some(e) = &err {
            all.push(e);
        }
        if gate() {
            render_all(&all, render_against);
        } else {
            render_all(&all, &[]);
        }
        out
    }));
    match r {
        Ok(o) => o,
        Err(_) => CompileOut { panic: Some(take_panic()), ..Default::default() },
    }
}

/// `compile()`: returns Ok(warnings) / Err; `generated` stays empty (it went to the destination)
pub fn compile(backend: &BackendSel, srcs: &[Src], out: &OutSel, bp: &BuilderPath) -> CompileOut {
    compile_between(backend, srcs, out, bp, &|| {})
}

/// `compile()`, with `between` called after the builder is complete (output mode and sources set)
/// and before `compile()` itself: the moment at which the outside world may still change
pub fn compile_between(backend: &BackendSel, srcs: &[Src], out: &OutSel, bp: &BuilderPath, between: &dyn Fn()) -> CompileOut {
    let r = catch_unwind(AssertUnwindSafe(|| {
        let res = match backend {
            BackendSel::Rasn(cfg) => {
                if bp.swap_backend && bp.swap_late {
                    ready_with(Compiler::<TypescriptBackend, _>::new(), srcs, out, bp, between)
                        .with_backend(RasnBackend::from_config(cfg.to_config()))
                        .compile()
                } else if bp.swap_backend {
                    let c = Compiler::<TypescriptBackend, _>::new()
                        .with_backend(RasnBackend::from_config(cfg.to_config()));
                    ready_with(c, srcs, out, bp, between).compile()
                } else {
                    ready_with(Compiler::<RasnBackend, _>::new_with_config(cfg.to_config()), srcs, out, bp, between).compile()
                }
            }
            BackendSel::Ts => {
                if bp.swap_backend && bp.swap_late {
                    ready_with(Compiler::<RasnBackend, _>::new(), srcs, out, bp, between)
                        .with_backend(TypescriptBackend::default())
                        .compile()
                } else if bp.swap_backend {
                    let c = Compiler::<RasnBackend, _>::new().with_backend(TypescriptBackend::default());
                    ready_with(c, srcs, out, bp, between).compile()
                } else {
                    ready_with(Compiler::<TypescriptBackend, _>::new(), srcs, out, bp, between).compile()
                }
            }
        };
        let (o, _, _) = from_result(res.map(|w| CompileResult { generated: String::new(), warnings: w }));
        o
    }));
    match r {
        Ok(o) => o,
        Err(_) => CompileOut { panic: Some(take_panic()), ..Default::default() },
    }
}

/// Render an error the three ways C17 compares.
pub struct Renderings {
    pub display: String,
    pub contextualized: String,
}

pub fn compile_for_report(backend: &BackendSel, srcs: &[Src], ctx_input: &str) -> (CompileOut, Option<Renderings>) {
    let r = catch_unwind(AssertUnwindSafe(|| {
        let bp = BuilderPath::default();
        let res = match backend {
            BackendSel::Rasn(cfg) => {
                to_string_with(Compiler::<RasnBackend, _>::new_with_config(cfg.to_config()), srcs, &bp)
            }
            BackendSel::Ts => to_string_with(Compiler::<TypescriptBackend, _>::new(), srcs, &bp),
        };
        let (out, _w, err) = from_result(res);
        let rend = err.map(|e| Renderings {
            display: e.to_string(),
            contextualized: e.contextualize(ctx_input),
        });
        (out, rend)
    }));
    match r {
        Ok(o) => o,
        Err(_) => (CompileOut { panic: Some(take_panic()), ..Default::default() }, None),
    }
}
