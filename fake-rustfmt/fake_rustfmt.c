/*
 * fake-rustfmt — deterministic stand-in for rustfmt (a STUB; reported as such).
 * Behaviour comes from $FAKE_RUSTFMT_MODE (set by the simulation plan):
 *   ok            stream stdin -> fmt(stdin), exit 0
 *   slurp         read ALL of stdin first, then write everything (pipe-deadlock probe), exit 0
 *   exit1|exit2|exit3   like ok, with that exit status
 *   die:<k>       write the first k bytes of fmt(stdin), then SIGKILL itself
 *   badutf8       like ok but a 0xFF byte is inserted after the banner
 *   noread        exit 0 at once, without reading stdin or writing anything
 *   failif:<n>    a pure function of the input: exit 1 without output when fnv1a(input) % n == 0,
 *                 otherwise like ok (reads ALL input first) — "this formatter rejects some sources"
 * With a file argument (`rustfmt [options] <file>`) the file is formatted IN PLACE, as rustfmt
 * does: input = the file's content, output = the file's new content (nothing is written when the
 * stand-in fails before producing output).
 * fmt(x) = banner line + x with every " ; " replaced by " ;\n" (one item per line).
 */
#include <fcntl.h>
#include <signal.h>
#include <stdio.h>
#include <stdlib.h>
#include <string.h>
#include <unistd.h>

static const char BANNER[] = "// formatted by fake-rustfmt\n";

static size_t out_count = 0, die_at = (size_t)-1;
static int out_fd = 1;
static void emit(const char *p, size_t n)
{
    while (n) {
        size_t k = n;
        if (die_at != (size_t)-1 && out_count + k > die_at) k = die_at - out_count;
        size_t off = 0;
        while (off < k) {
            ssize_t w = write(out_fd, p + off, k - off);
            if (w <= 0) _exit(1);
            off += (size_t)w;
        }
        out_count += k; p += k; n -= k;
        if (die_at != (size_t)-1 && out_count >= die_at) raise(SIGKILL);
    }
}

/* streaming " ; " -> " ;\n" with a 2-byte lookbehind */
static char pend[3]; static int npend = 0;
static void feed(const char *buf, size_t n, int flush)
{
    for (size_t i = 0; i < n; i++) {
        pend[npend++] = buf[i];
        if (npend == 3) {
            if (pend[0] == ' ' && pend[1] == ';' && pend[2] == ' ') { emit(" ;\n", 3); npend = 0; }
            else { emit(pend, 1); pend[0] = pend[1]; pend[1] = pend[2]; npend = 2; }
        }
    }
    if (flush && npend) { emit(pend, (size_t)npend); npend = 0; }
}

int main(int argc, char **argv)
{
    const char *mode = getenv("FAKE_RUSTFMT_MODE");
    if (!mode) mode = "ok";
    int status = 0, slurp = 0, bad = 0;
    unsigned long long failif = 0;
    if (!strcmp(mode, "noread")) return 0;
    if (!strncmp(mode, "failif:", 7)) { failif = strtoull(mode + 7, 0, 10); slurp = 1; }
    /* in-place mode: the last argument that is not an option names the file */
    const char *file = 0;
    for (int i = 1; i < argc; i++) if (argv[i][0] != '-') file = argv[i];
    int in_fd = 0;
    if (file) {
        in_fd = open(file, O_RDONLY);
        if (in_fd < 0) return 1;
        slurp = 1; /* the whole file is read before it is rewritten */
    }
    if (!strcmp(mode, "exit1")) status = 1;
    else if (!strcmp(mode, "exit2")) status = 2;
    else if (!strcmp(mode, "exit3")) status = 3;
    else if (!strcmp(mode, "slurp")) slurp = 1;
    else if (!strcmp(mode, "badutf8")) bad = 1;
    else if (!strncmp(mode, "die:", 4)) die_at = (size_t)strtoull(mode + 4, 0, 10);
    static char buf[1 << 16];
    if (slurp) {
        size_t cap = 1 << 20, len = 0; char *all = malloc(cap);
        ssize_t r;
        while ((r = read(in_fd, buf, sizeof buf)) > 0) {
            if (len + (size_t)r > cap) { cap *= 2; all = realloc(all, cap); }
            memcpy(all + len, buf, (size_t)r); len += (size_t)r;
        }
        if (failif) {
            unsigned long long h = 0xcbf29ce484222325ULL;
            for (size_t i = 0; i < len; i++) { h ^= (unsigned char)all[i]; h *= 0x100000001b3ULL; }
            if (h % failif == 0) return 1;
        }
        if (file) {
            close(in_fd);
            out_fd = open(file, O_WRONLY | O_TRUNC);
            if (out_fd < 0) return 1;
        }
        emit(BANNER, sizeof BANNER - 1);
        if (bad) emit("\xff", 1);
        feed(all, len, 1);
        return status;
    }
    emit(BANNER, sizeof BANNER - 1);
    if (bad) emit("\xff", 1);
    ssize_t r;
    while ((r = read(0, buf, sizeof buf)) > 0) feed(buf, (size_t)r, 0);
    feed("", 0, 1);
    return status;
}
