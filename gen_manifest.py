#!/usr/bin/env python3
"""Writes MANIFEST.json (kept as a script so that the claimed list and the n/a list stay in one place)."""
import json, subprocess

NA = {
 "C01": "type-checking of generated Rust is a pure function of (modules, config): no schedule, clock, fault or history occurs in its statement; deciding it is input generation + cargo check, not simulation",
 "C02": "component order/shape of generated items is a pure function of the input's type shapes; nothing to schedule or fault",
 "C03": "tag class/number/explicitness is a pure function of the input over a finite configuration space; nothing to schedule or fault",
 "C04": "the emitted bound is a pure function of the subtype expression (an algebraic fold); belongs to enumeration/SMT, not simulation",
 "C05": "extensibility markers are a pure function of marker positions in the input",
 "C06": "integer width selection is a pure function of (lower, upper, extensible)",
 "C07": "value rendering is a pure function of the literal",
 "C09": "equivalence of sugared and hand-expanded notation relates two inputs of a pure function",
 "C13": "whitespace/comment insensitivity relates two inputs of a pure function",
 "C14": "enumeral numbering is a pure function of the item list",
 "C15": "permitted-alphabet folding is a pure function of the FROM expression",
 "C16": "identifier mangling is a pure function of the name and its role",
 "C18": "the TypeScript shape is a pure function of the input",
 "C19": "option isolation compares one pure function at two configuration values; configs are randomised per run in the claimed checks, which exercises C11/C12/C20 under every config but does not decide C19",
}

CHECKS = {
 "C10": dict(
   level="exploration",
   text="Definition-level fault injection against a fault-free reference run: 1..3 faults per run from cooperative fault points in the compiler (verif::buggify at the per-definition generator fold of both backends, at the validator fold and in the linker loop), replacement of type assignments by parseable but unsupported definitions (REAL, VideotexString, inverted range, MACRO), and one module of several that does not lex. Oracles: accounting (every assignment is represented by the items attributed to it in the fault-free run, or matched to a new warning - named, or unnamed via bipartite matching); locality (every item of a definition that does not depend on a faulted one is token-identical to the fault-free run; for buggify faults nothing but the faulted definition is exempt); Err when any source fails to lex; normal return and renderable warnings. Both backends, random RasnConfig; in a third of the runs the sources reach the compiler as files through the simulated disk and the typestate builder is driven along a random path (output mode first, last or BETWEEN two sources, paths one by one or in batches, backend swapped). The fault-free run itself is checked for completeness (leaving a definition out must remove an item, unless a warning of that run names the definition); the generator also emits values governed by a class field or a selection type. Workloads include classes, objects, parameterized templates (tagged or not, with type and value parameters) with instances, and members inherited with COMPONENTS OF. Scenario formatter-faults: the rustfmt stand-in fails VISIBLY (killed by a signal in the middle of its output, exit status 1/2/3, output that is not UTF-8) - compile_to_string() and compile() must return the unformatted or the completely formatted bindings, never a part of them, unless a new warning says so. Scenario xmod-name re-observes known finding F1 with rename-apart classification.",
   note="Attribution of items to definitions is learned by leave-one-out compilation in the reference child; definitions with empty attribution are not judged; a dependent of a REPLACED definition counts as represented when any of its items is still there (it legitimately changes shape). A formatter that exits 0 without output lies about its success and is not a fault this property is judged under. Sampling, not proof.",
   technique="deterministic simulation with fault injection: buggify-style cooperative fault points at definition granularity plus input-level definition faults; accounting/locality oracles against a fault-free reference",
   design="§4 C10"),
 "C12": dict(
   level="exploration",
   text="Deterministic simulation of module-delivery histories. (A) A wrapper backend on the public Backend trait treats the generate_module call stream as a transport that replays, duplicates and reorders captured modules (also across several compilations in one run, with other TAGS/EXTENSIBILITY defaults); every delivery to the long-lived real backend must equal the same call on a fresh backend. (B) Sub-multisets and orders of generated module sets (2..5 modules, differing defaults, acyclic and cyclic import graphs, imported types/values in components, constraints and DEFAULTs) handed to one Compiler through every builder path, as literals/one literal/files (the sets include mutual recursion entered from other modules, classes with named field types, objects of imported classes, parameterized templates with instances and dummy references spelled like foreign types): every module's block must be token-identical to its block in the stand-alone compilation (module + import cone, pristine process). (C) Every IMPORTS clause must become use super::<module>::{...} of exactly the imported symbols (plus documented associated types), * exactly under default_wildcard_imports, and module-qualified references must go through super::<module>::. (D, scenario tag-keywords) Defaults-do-not-leak relation between two compilations of one set: writing the keyword EXPLICIT after every keyword-less first-level tag of the modules that say EXPLICIT TAGS must leave every module block token-identical - in particular the blocks of modules with another default that inherit those members with COMPONENTS OF or instantiate a template that carries them. (E) Every module-qualified path the compiler writes into an item (super::<m>::<T>, from a qualified reference, a member copied with COMPONENTS OF or a template instance) must name something the block of <m> defines; inherited base types carry a member of a type their own module imports. Module identifiers come in families (one extends another by an arc).",
   note="Sampling, not proof. Known findings F1 (same bare name in two modules) and F5 (same enumeral/named number in two modules) are confined to their own scenarios and classified by renaming the shared spelling apart. Name mangling is learned by leave-one-out, not re-implemented.",
   technique="deterministic simulation: message faults (drop, duplicate, reorder, replay) on the Backend delivery seam and on the Compiler builder; differential against fresh-backend and stand-alone references",
   design="§4 C12"),
 "C17": dict(
   level="exploration",
   text="SLICE of the property: stored-byte corruption of valid generated sources (1..3 modules, LF/CRLF, comments - half of the block comments with vertical tabs, form feeds, tabs and no-break spaces, also directly behind the line break). One byte replaced by a byte that starts no ASN.1 token, a 512-byte sector zero-filled, or truncation inside an assignment, at strict positions known from the generator's token map; small sources swept exhaustively over every strict byte, larger ones sampled, every header/assignment/END hit at its first and last byte; given as a literal and as a file whose bytes the simulated disk corrupts in flight. Oracle on every syntax error: offset within input and on a char boundary; line = 1 + line breaks before offset (also for the context start); position not before the first token of the malformed unit and not after the first corrupted byte; Display line = contextualize header line = contextualize flagged line = structured line, a row is flagged whenever the reported line is part of the excerpt and not blank, and the flagged row shows that line's text; path reported iff the corrupted source was given by path, also when well-formed file and literal sources precede it, when the file's name holds punctuation, non-ASCII characters or bytes that are not valid UTF-8 (the path is then reported as to_string_lossy renders it), and when the file system reports the file's size as 0 although all of it can be read (a benign stat fault: the error must still be found where the damage is). One case in twenty-five runs after a HISTORY of up to 140 other compilations on the same thread (nesting of 3..100 levels, sources cut at end of input, comments and strings that never end). One literal case in twenty is preceded IN THE SAME SOURCE by a hand-written module of notation the generator does not write (ENCODING-CONTROL, classes with syntax, macros, boundary literals ...). Two-byte corruptions: a comma between two components blanked plus a later damaged byte of the same assignment - the bound is then the identifier after the lost comma (known finding lenient-comma-then-damaged-default when the later damage sits inside a DEFAULT value).",
   note="Not claimed: deletion/replacement by another valid token (a typo model; needs a generator-driven differential). Ok results and non-syntax errors are not judged. The token map only has to be right for text the generator itself produces.",
   technique="deterministic simulation with fault injection: stored-byte corruption at token-map positions, delivered as literals and through the simulated disk seam; position/consistency oracles over the structured report and both renderings",
   design="§4 C17"),
 "C08": dict(
   level="exploration",
   text="SLICE of the property: storage-fault images of valid sources. Each run takes a real-world corpus file (all 892 walked systematically), a generated module set (every notation knob of the generator, incl. definitions that compile with warnings quoting multi-byte text) or, one run in eight, a hand-written base (dsim/samples: two notation files covering the notation of X.680-X.683 the compiler accepts, 73 modules with reference cycles of every kind also entered from outside the cycle, 45 inputs the compiler rejects (valid notation it does not support, and constraints of the wrong kind behind SIZE), 71 inputs with boundary literals in every literal position - 2^63..10^400, exact ends of i64/u64/i128, inverted ranges, f64 overflow, empty/odd/long bit and hex strings, character tuples, time strings) and a batch of images of it - truncation at any byte (biased to the last bytes; in the thorough tier every prefix of small generated sources), single-bit flips, 512-byte sector zero-fill/duplicate/swap, splices of two files - delivered as a literal or as a file read through the simulated disk (the seam applies truncation/flip/zero-fill to the bytes in flight), compiles with both backends (half of the runs with a random RasnConfig) and renders every error and warning with Display and contextualize. Oracle: the operation returns; no panic (hook + catch_unwind), no SIGSEGV/SIGABRT, no CPU-budget overrun, on 2 MiB and 8 MiB stacks.",
   note="Not claimed: arbitrary byte soup and GENERATED exotic notation / cycles (an input fuzzer, another technique family); hand-written bases with that notation and with reference cycles are part of the check. Rejecting malformed input with >= 20 nested value braces / WITH COMPONENTS / object-set braces takes exponential time, and types nested some 250 levels deep exhaust a 2 MiB stack (both recorded in DESIGN 10.2, in no base). Every simulated run executes in a child forked from a parent that never ran compiler code; crash containment and the CPU budget are the worker's.",
   technique="deterministic simulation with fault injection: seeded storage-fault images (truncation, bit flip, sector faults, splice) delivered through a simulated disk seam, crash/hang supervision per forked run",
   design="§4 C08"),
 "C11": dict(
   level="exploration",
   text="Deterministic simulation of 1..16 caller threads under a seeded baton scheduler (random, PCT and run-to-completion strategies; yield points at every intercepted libc call and at the verif-hooks points inside lexing, linking, validation and per-definition generation), each thread with a history of compilations over generated module sets, their siblings (same names, different bodies/defaults) and corpus files, in random arrangements (assignment permutation, module order, regrouping into sources), with seeded HashSet keys (getrandom seam) and benign read faults; sources handed over twice; multi-file sets of real-world modules with disjoint names in permuted source order; every module permutation of small sets; reused scratch file paths with new content. A watchdog passes the baton on when its holder blocks on a lock another sim thread holds. Scenario fine-grain adds the ALLOCATOR seam: every k-th heap allocation (k in 1..64) of the code under test is a yield point, 2..3 threads, rare switches - interleavings far below hook-point granularity, replayable because the k-th allocation of a deterministic computation is a deterministic place. Scenario formatter makes the rustfmt stand-in reachable in modes that are a pure function of its input (healthy, exit 3, rejecting some sources with exit 1), so results must not depend on what the same thread formatted before. IMPORTS may name the exporter by another module reference together with its object identifier. One operation in five is a compile() into a file path that all operations of the thread reuse (the file's content is the result compared); in a third of the multi-threaded runs two threads deliver into ONE directory, one with the TypeScript and one with the rasn backend (two files, each written by one thread only). One run in fifty adds two hand-written modules with permitted alphabets on the multi-octet string types (BMPString inside, UniversalString beyond the basic plane) to its inputs. Scenario xmod-name re-observes known finding F1. Oracle: every result is byte-identical (text and warning multiset) to a canonical-order single-threaded compilation in a pristine process of its own.",
   note="Sampling, not proof. Interleaving granularity is hook points and system calls, and heap allocations in the fine-grain scenario. Multi-file corpus sets are combined only when an over-approximate token scan finds their names disjoint (finding F1).",
   technique="deterministic simulation: seeded thread schedules (baton scheduler over real OS threads; yield points at system calls, compiler hook points and heap allocations), process histories, permuted delivery, seeded hash keys, formatter subprocess seam; differential against a pristine reference process",
   design="§4 C11"),
 "C20": dict(
   level="fault_enumeration",
   text="Deterministic simulation of compile() against a simulated disk/stdout/entropy seam (LD_PRELOAD shim deciding libc call outcomes over the real tmpfs). Each seeded workload (generated module set x malformed variant x backend/config x literal/file delivery x builder path x output mode x destination state) is run fault-free to record its I/O trace, then EVERY applicable single fault at EVERY call position of that trace is injected (complete single-fault sweep per workload), then sampled double/triple faults. Oracles: delivered bytes == compile_to_string() from a pristine reference process; failed compilation issues no mutating call (checked on the call history, so it covers every crash point); hard faults become the right Err, never Ok or a panic; a delivery that fails leaves a pre-existing destination in place and never unlinks or renames anything; directory destinations may come into being only after the builder is complete and with_backend() may be called last (the file system at delivery decides); benign faults (EINTR, short I/O, a file whose reported size is 0 or 7 bytes although all of it can be read) are invisible; the destination is also named through the deprecated set_output_path, and the output mode is also set between two sources. Scenario seq: HISTORIES of 2..4 compile() operations in one process, on one sim thread after the other or on 2..3 threads interleaved at every intercepted call, each with its own sources, destination, backend and builder path, followed by runs with one sampled fault at a call position of the recorded trace; every operation is judged as in lib, every mutating call must name a path under the operation's own directory, and when all are done every destination holds what ITS operation delivered and nothing else exists. Further scenarios: fmt (rustfmt stand-in in nine modes x five installation states, outputs above the pipe buffer), cli (the real rasn_compiler_cli binary as a child under the same seam: generated trees with nested/hidden directories, links, loops, every listing permuted, order-sensitive -m sources, file and directory names with punctuation and non-ASCII characters, a directory named like a module inside the searched tree, a module file emptied underneath the tool at any read; exit status and delivered bytes equal the library's), macro (asn1! inside a real rustc against compile_to_string()).",
   note="Trusted: the shim's interposition covers the libc entry points a Rust binary uses on this toolchain (un-modelled calls on paths under the run root are a harness error, not silence); kernel tmpfs is real; workloads are sampled, the per-workload fault sweep is exhaustive.",
   technique="deterministic simulation with fault injection: single-fault enumeration over recorded I/O traces + seeded multi-fault sampling",
   design="§4 C20"),
}

def main():
    commits = subprocess.run(["git","-C","/repo","log","--format=%H %s"],capture_output=True,text=True).stdout.splitlines()
    hook_commits=[c.split()[0] for c in commits if "verif-hooks" in c]
    m = {
      "version": 1,
      "setup_cmd": "./setup.sh",
      "hooks": {
        "guard": "cargo feature `verif-hooks` of the rasn-compiler crate (off by default)",
        "enable": "dsim depends on rasn-compiler by path with features = [\"verif-hooks\"] (dsim/Cargo.toml); every ./check invocation rebuilds it from /repo's working tree",
        "baseline_off_cmd": "cd /repo && cargo test --workspace --no-fail-fast --offline",
        "source_commits": hook_commits,
        "add_only": True,
      },
      "engines": [
        {"name":"dsim","path":"dsim/","serves_properties":sorted(CHECKS),"kind_free_text":"deterministic simulator: fork-per-run process model, seeded PRNG streams, baton scheduler over real OS threads, fault plans, replay files, minimiser"},
        {"name":"simio","path":"simio/simio.c","serves_properties":sorted(CHECKS),"kind_free_text":"LD_PRELOAD libc interposer: disk/stdout/directory/entropy seam with fault plan and event log"},
      ],
      "checks": [],
      "not_applicable": [{"property_id":k,"reason":v} for k,v in sorted(NA.items())],
      "notes": "Technique family: deterministic simulation with fault injection. See DESIGN.md. Exit codes of ./check: 0 held, 1 VIOLATION, 2 harness error.",
    }
    for pid,c in sorted(CHECKS.items()):
        m["checks"].append({
          "property_id": pid,
          "quick_cmd": f"./check {pid} quick",
          "thorough_cmd": f"./check {pid} thorough",
          "evidence_file": f"/verif/evidence/{pid}.json",
          "replay_cmd_template": f"./check {pid} --replay {{path}}",
          "engine": "dsim",
          "level_claimed": {"category": c["level"], "text": c["text"], "design_ref": c["design"]},
          "level_note": c["note"],
          "technique": c["technique"],
        })
    claimed=set(CHECKS)|set(NA)
    import os
    allp=[json.loads(l)["id"] for l in open(os.path.join(os.path.dirname(__file__),"properties.jsonl"))]
    missing=[p for p in allp if p not in claimed]
    for p in missing:
        m["not_applicable"].append({"property_id":p,"reason":"claimed in DESIGN.md; its check is still under construction in this commit and is therefore not registered yet"})
    json.dump(m,open(os.path.join(os.path.dirname(__file__),"MANIFEST.json"),"w"),indent=1)
    print("claimed:",sorted(CHECKS),"pending:",missing)
main()
