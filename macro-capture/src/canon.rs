// Canonical text of a token stream: independent of the printer (rustc's inside a proc
// macro, proc_macro2's fallback in the harness) and of spacing. Shared by include!().
fn canon(ts: proc_macro2::TokenStream, out: &mut String) {
    for tt in ts {
        match tt {
            proc_macro2::TokenTree::Group(g) => {
                let (o, c) = match g.delimiter() {
                    proc_macro2::Delimiter::Parenthesis => ("(", ")"),
                    proc_macro2::Delimiter::Brace => ("{", "}"),
                    proc_macro2::Delimiter::Bracket => ("[", "]"),
                    proc_macro2::Delimiter::None => ("", ""),
                };
                out.push_str(o);
                out.push(' ');
                canon(g.stream(), out);
                out.push_str(c);
                out.push(' ');
            }
            proc_macro2::TokenTree::Ident(i) => {
                out.push_str(&i.to_string());
                out.push(' ');
            }
            proc_macro2::TokenTree::Punct(p) => {
                out.push(p.as_char());
                out.push(' ');
            }
            proc_macro2::TokenTree::Literal(l) => {
                out.push_str(&l.to_string());
                out.push(' ');
            }
        }
    }
}
