//! The working tree's asn1! macro (its source is include!d, so this IS the code under
//! /repo/rasn-compiler-derive/src/lib.rs, running inside a real rustc), plus
//! `asn1_capture!("<file>", "<asn.1>")`, which expands `asn1!` under catch_unwind, writes the
//! canonical token text or PANIC to <file>, and itself expands to nothing — so no `rasn`
//! runtime crate is needed to observe what the macro produces.
include!("/repo/rasn-compiler-derive/src/lib.rs");
include!("canon.rs");

struct CaptureInput {
    path: LitStr,
    asn: LitStr,
}

impl Parse for CaptureInput {
    fn parse(input: syn::parse::ParseStream) -> syn::Result<Self> {
        let path = input.parse()?;
        let _: syn::Token![,] = input.parse()?;
        let asn = input.parse()?;
        Ok(Self { path, asn })
    }
}

#[proc_macro]
pub fn asn1_capture(input: TokenStream) -> TokenStream {
    let ci = parse_macro_input!(input as CaptureInput);
    let lit = proc_macro2::Literal::string(&ci.asn.value());
    let arg: TokenStream = proc_macro2::TokenStream::from(proc_macro2::TokenTree::Literal(lit)).into();
    let prev = std::panic::take_hook();
    std::panic::set_hook(Box::new(|_| {}));
    let r = std::panic::catch_unwind(std::panic::AssertUnwindSafe(|| asn1(arg)));
    std::panic::set_hook(prev);
    let text = match r {
        Ok(ts) => {
            let mut s = String::from("OK\n");
            canon(proc_macro2::TokenStream::from(ts), &mut s);
            s
        }
        Err(_) => "PANIC\n".to_string(),
    };
    std::fs::write(ci.path.value(), text).expect("asn1_capture: cannot write the capture file");
    TokenStream::new()
}
