#!/bin/bash
# MANIFEST.setup_cmd: build the framework offline from files on disk only.
set -euo pipefail
cd "$(dirname "$0")"
export CARGO_NET_OFFLINE=true
mkdir -p target evidence replays
gcc -O2 -shared -fPIC -o target/libsimio.so simio/simio.c -ldl
(cd dsim && cargo build --release --offline 2>&1 | tail -3)
echo "setup: ok"
