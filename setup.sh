#!/bin/bash
# MANIFEST.setup_cmd: build the framework offline from files on disk only.
set -euo pipefail
cd "$(dirname "$0")"; VERIF_DIR="$(pwd)"
export CARGO_NET_OFFLINE=true
mkdir -p target evidence replays
gcc -O2 -shared -fPIC -o target/libsimio.so simio/simio.c -ldl
gcc -O2 -o target/fake-rustfmt fake-rustfmt/fake_rustfmt.c
(cd /repo && cargo build --release --offline -p rasn-compiler --features cli --bin rasn_compiler_cli --target-dir "$VERIF_DIR/target/cli" 2>&1 | tail -1) || true
(cd macro-capture && cargo build --release --offline 2>&1 | tail -1)
(cd dsim && cargo build --release --offline 2>&1 | tail -3)
echo "setup: ok"
