/*
 * simio — the disk / stdout / directory / entropy seam of the dsim simulator.
 *
 * Loaded with LD_PRELOAD. It interposes the libc entry points a Rust binary built
 * from librasn/compiler uses for I/O and decides the OUTCOME of each call from a
 * fault plan; the file system underneath is the real kernel tmpfs.
 *
 * Scope: only calls (a) made while armed, (b) by a registered sim thread (or by any
 * thread in "process mode", used for CLI children), and (c) on a path under the run's
 * root directory, on an fd opened from such a path, or on fd 1, are simulated and
 * logged. Everything else passes straight through.
 *
 * No malloc, no stdio: static buffers only, so it is safe to be entered from anywhere.
 */
#define _GNU_SOURCE
#include <dirent.h>
#include <dlfcn.h>
#include <errno.h>
#include <fcntl.h>
#include <signal.h>
#include <stdarg.h>
#include <stdint.h>
#include <stdlib.h>
#include <string.h>
#include <sys/stat.h>
#include <sys/types.h>
#include <sys/uio.h>
#include <unistd.h>

/* ---- call classes (keep in sync with dsim/src/shim.rs) ---- */
enum {
    C_OPEN_R = 0, C_OPEN_W, C_READ, C_WRITE, C_WRITE_STDOUT, C_CLOSE, C_STAT,
    C_OPENDIR, C_READDIR, C_READLINK, C_GETRANDOM, C_UNLINK, C_RENAME, C_MKDIR,
    C_OTHER, C_NCLASS
};
static const char *CLASS_NAME[C_NCLASS] = {
    "open_r", "open_w", "read", "write", "write_stdout", "close", "stat",
    "opendir", "readdir", "readlink", "getrandom", "unlink", "rename", "mkdir", "other"
};

/* ---- fault kinds ---- */
enum {
    F_NONE = 0,
    F_ERRNO,   /* a = errno: fail without executing                                   */
    F_SHORT,   /* a = max bytes (>=1): read/write transfers at most a bytes            */
    F_EOF,     /* read returns 0 (file ends here: truncation seen through the seam)    */
    F_FLIP,    /* read: after the real read, buf[a % n] ^= b                           */
    F_ZERO,    /* read: after the real read, zero buf[a % n .. +b]                     */
    F_KILL,    /* raise SIGKILL before executing                                       */
    F_PERM,    /* opendir: serve the entries of this directory in order permuted by a  */
    F_GARBLE,  /* read: after the real read, buf[a % n] = (char)b                      */
    F_NKINDS
};
static const char *KIND_NAME[F_NKINDS] = {
    "none", "errno", "short", "eof", "flip", "zero", "kill", "perm", "garble"
};

#define ANY_ORD 0xffffffffu
struct fault { uint32_t cls, ord, kind; uint64_t a, b; uint32_t fired; };
#define MAX_FAULTS 64
static struct fault g_faults[MAX_FAULTS];
static int g_nfaults;

static char g_root[512];
static size_t g_rootlen;
static volatile int g_armed;
static int g_process_mode;          /* every thread is in scope (CLI children) */
static __thread int t_tid = -1;
static uint32_t g_seq;
static uint32_t g_ord[C_NCLASS];
static uint64_t g_ent;              /* entropy stream state */
static uint32_t g_unmodelled;
static uint64_t g_kill_at = (uint64_t)-1; /* global seq at which to die */

typedef void (*yield_cb_t)(int cls);
static yield_cb_t g_yield;

#define FD_MAX 4096
static unsigned char g_fdcls[FD_MAX];   /* 0 none, 1 src(read), 2 dst(write), 3 dir */
static char g_fdpath[FD_MAX][96];

#define LOG_CAP (8u << 20)
static char g_log[LOG_CAP];
static size_t g_loglen;
static int g_log_overflow;
static int g_logfd = -1;            /* process mode: append each line here */

/* ---- real functions ---- */
static int (*r_open)(const char *, int, ...);
static int (*r_open64)(const char *, int, ...);
static int (*r_openat)(int, const char *, int, ...);
static int (*r_openat64)(int, const char *, int, ...);
static int (*r_creat)(const char *, mode_t);
static ssize_t (*r_read)(int, void *, size_t);
static ssize_t (*r_write)(int, const void *, size_t);
static ssize_t (*r_writev)(int, const struct iovec *, int);
static ssize_t (*r_readv)(int, const struct iovec *, int);
static ssize_t (*r_pread64)(int, void *, size_t, off_t);
static ssize_t (*r_pwrite64)(int, const void *, size_t, off_t);
static int (*r_close)(int);
static int (*r_statx)(int, const char *, int, unsigned, struct statx *);
static int (*r_stat)(const char *, struct stat *);
static int (*r_stat64)(const char *, struct stat64 *);
static int (*r_lstat)(const char *, struct stat *);
static int (*r_lstat64)(const char *, struct stat64 *);
static int (*r_fstat)(int, struct stat *);
static int (*r_fstat64)(int, struct stat64 *);
static int (*r_fstatat)(int, const char *, struct stat *, int);
static int (*r_fstatat64)(int, const char *, struct stat64 *, int);
static DIR *(*r_opendir)(const char *);
static DIR *(*r_fdopendir)(int);
static struct dirent64 *(*r_readdir64)(DIR *);
static struct dirent *(*r_readdir)(DIR *);
static int (*r_closedir)(DIR *);
static ssize_t (*r_readlink)(const char *, char *, size_t);
static ssize_t (*r_getrandom)(void *, size_t, unsigned);
static int (*r_unlink)(const char *);
static int (*r_unlinkat)(int, const char *, int);
static int (*r_rename)(const char *, const char *);
static int (*r_renameat)(int, const char *, int, const char *);
static int (*r_mkdir)(const char *, mode_t);
static int (*r_mkdirat)(int, const char *, mode_t);
static int (*r_rmdir)(const char *);
static int (*r_truncate64)(const char *, off_t);
static int (*r_ftruncate64)(int, off_t);
static int (*r_symlink)(const char *, const char *);
static int (*r_link)(const char *, const char *);

#define RESOLVE(name) do { if (!r_##name) r_##name = dlsym(RTLD_NEXT, #name); } while (0)

/* ---- tiny helpers (no libc formatting) ---- */
static void log_raw(const char *s, size_t n)
{
    if (g_logfd >= 0) { RESOLVE(write); r_write(g_logfd, s, n); return; }
    if (g_loglen + n >= LOG_CAP) { g_log_overflow = 1; return; }
    memcpy(g_log + g_loglen, s, n);
    g_loglen += n;
}
static char *put_u(char *p, uint64_t v)
{
    char tmp[24]; int i = 0;
    if (!v) tmp[i++] = '0';
    while (v) { tmp[i++] = (char)('0' + v % 10); v /= 10; }
    while (i) *p++ = tmp[--i];
    return p;
}
static char *put_i(char *p, int64_t v)
{
    if (v < 0) { *p++ = '-'; return put_u(p, (uint64_t)(-v)); }
    return put_u(p, (uint64_t)v);
}
static char *put_s(char *p, const char *s, size_t max)
{
    size_t i = 0;
    while (s[i] && i < max) { char c = s[i++]; *p++ = (c == ' ' || c == '\n') ? '_' : c; }
    return p;
}

static int in_scope_thread(void) { return g_armed && (g_process_mode || t_tid >= 0); }

static const char *rel(const char *path)
{
    if (g_rootlen && strncmp(path, g_root, g_rootlen) == 0) return path + g_rootlen;
    return path;
}

static int path_in_scope(const char *path)
{
    if (!path || !g_rootlen) return 0;
    if (path[0] == '/') return strncmp(path, g_root, g_rootlen) == 0;
    /* relative path: in scope iff the cwd is under the root */
    char cwd[600];
    if (!getcwd(cwd, sizeof cwd)) return 0;
    return strncmp(cwd, g_root, g_rootlen) == 0 ||
           (strlen(cwd) + 1 == g_rootlen && strncmp(cwd, g_root, g_rootlen - 1) == 0);
}

static uint64_t ent_next(void)
{   /* splitmix64 */
    uint64_t z = (g_ent += 0x9e3779b97f4a7c15ull);
    z = (z ^ (z >> 30)) * 0xbf58476d1ce4e5b9ull;
    z = (z ^ (z >> 27)) * 0x94d049bb133111ebull;
    return z ^ (z >> 31);
}

/* Called at the start of every simulated call: yield, number it, find its fault. */
struct callctx { uint32_t seq, ord, cls; struct fault *f; };

static void begin_call(struct callctx *c, int cls)
{
    if (g_yield && t_tid >= 0) g_yield(cls);
    c->cls = (uint32_t)cls;
    c->seq = __atomic_fetch_add(&g_seq, 1, __ATOMIC_SEQ_CST);
    c->ord = __atomic_fetch_add(&g_ord[cls], 1, __ATOMIC_SEQ_CST);
    c->f = 0;
    for (int i = 0; i < g_nfaults; i++) {
        struct fault *f = &g_faults[i];
        if (f->cls == (uint32_t)cls && (f->ord == c->ord || f->ord == ANY_ORD)) { c->f = f; break; }
    }
    if (c->seq == g_kill_at || (c->f && c->f->kind == F_KILL)) {
        char line[64], *p = line;
        p = put_u(p, c->seq); *p++ = ' '; p = put_s(p, "KILL", 8); *p++ = '\n';
        log_raw(line, (size_t)(p - line));
        raise(SIGKILL);
    }
    if (c->f) c->f->fired++;
}

static void end_call(struct callctx *c, const char *path, int fd, int64_t req, int64_t res, int err, int flags)
{
    char line[320], *p = line;
    p = put_u(p, c->seq); *p++ = ' ';
    *p++ = 't'; p = put_i(p, t_tid); *p++ = ' ';
    p = put_s(p, CLASS_NAME[c->cls], 16); *p++ = '#'; p = put_u(p, c->ord); *p++ = ' ';
    if (path) p = put_s(p, rel(path), 120);
    else if (fd >= 0 && fd < FD_MAX && g_fdpath[fd][0]) p = put_s(p, g_fdpath[fd], 95);
    else if (fd == 1) p = put_s(p, "<stdout>", 16);
    else *p++ = '-';
    *p++ = ' '; p = put_s(p, "fl=", 3); p = put_u(p, (uint64_t)(uint32_t)flags);
    *p++ = ' '; p = put_s(p, "req=", 4); p = put_i(p, req);
    *p++ = ' '; p = put_s(p, "res=", 4); p = put_i(p, res);
    *p++ = ' '; p = put_s(p, "errno=", 6); p = put_i(p, res < 0 ? err : 0);
    *p++ = ' '; p = put_s(p, "fault=", 6);
    p = put_s(p, c->f ? KIND_NAME[c->f->kind] : "none", 8);
    *p++ = '\n';
    log_raw(line, (size_t)(p - line));
}

static void track_fd(int fd, int cls, const char *path)
{
    if (fd < 0 || fd >= FD_MAX) return;
    g_fdcls[fd] = (unsigned char)cls;
    const char *r = rel(path);
    size_t n = strlen(r); if (n > 95) n = 95;
    memcpy(g_fdpath[fd], r, n); g_fdpath[fd][n] = 0;
}

/* ================= control API ================= */
void simio_reset(void)
{
    g_armed = 0; g_nfaults = 0; g_seq = 0; g_loglen = 0; g_log_overflow = 0;
    g_unmodelled = 0; g_kill_at = (uint64_t)-1; g_yield = 0; g_process_mode = 0;
    memset(g_ord, 0, sizeof g_ord);
    memset(g_fdcls, 0, sizeof g_fdcls);
    memset(g_fdpath, 0, sizeof g_fdpath);
    g_root[0] = 0; g_rootlen = 0;
}
void simio_set_root(const char *root)
{
    size_t n = strlen(root);
    if (n >= sizeof g_root - 2) n = sizeof g_root - 2;
    memcpy(g_root, root, n);
    if (n && g_root[n - 1] != '/') g_root[n++] = '/';
    g_root[n] = 0; g_rootlen = n;
}
int simio_add_fault(uint32_t cls, uint32_t ord, uint32_t kind, uint64_t a, uint64_t b)
{
    if (g_nfaults >= MAX_FAULTS) return -1;
    struct fault *f = &g_faults[g_nfaults++];
    f->cls = cls; f->ord = ord; f->kind = kind; f->a = a; f->b = b; f->fired = 0;
    return 0;
}
void simio_set_kill_at(uint64_t seq) { g_kill_at = seq; }
void simio_set_entropy(uint64_t seed) { g_ent = seed; }
void simio_set_yield(yield_cb_t cb) { g_yield = cb; }
void simio_arm(int on) { g_armed = on; }
void simio_register_thread(int tid) { t_tid = tid; }
int simio_current_tid(void) { return t_tid; }
uint32_t simio_tick(void) { return __atomic_fetch_add(&g_seq, 1, __ATOMIC_SEQ_CST); }
const char *simio_log(size_t *len) { *len = g_loglen; return g_log; }
void simio_note(const char *s)
{
    char line[300], *p = line;
    p = put_u(p, __atomic_fetch_add(&g_seq, 1, __ATOMIC_SEQ_CST)); *p++ = ' ';
    *p++ = 't'; p = put_i(p, t_tid); *p++ = ' ';
    p = put_s(p, "note", 8); *p++ = ' ';
    size_t n = strlen(s); if (n > 250) n = 250;
    memcpy(p, s, n); p += n; *p++ = '\n';
    log_raw(line, (size_t)(p - line));
}
uint32_t simio_fault_fired(int i) { return (i >= 0 && i < g_nfaults) ? g_faults[i].fired : 0; }
uint32_t simio_unmodelled(void) { return g_unmodelled; }
int simio_log_overflow(void) { return g_log_overflow; }
int simio_present(void) { return 1; }

/* process mode: plan comes from the environment (CLI children) */
static uint64_t parse_u(const char **pp)
{
    const char *p = *pp; uint64_t v = 0;
    while (*p >= '0' && *p <= '9') v = v * 10 + (uint64_t)(*p++ - '0');
    *pp = p; return v;
}
__attribute__((constructor)) static void simio_init(void)
{
    const char *plan = getenv("SIMIO_PLAN");
    if (!plan) return;
    /* root=<path>;ent=<n>;kill=<n>;f=<cls>:<ord>:<kind>:<a>:<b>;...  */
    const char *p = plan;
    const char *logpath = getenv("SIMIO_LOG");
    while (*p) {
        if (!strncmp(p, "root=", 5)) {
            p += 5; char tmp[512]; size_t n = 0;
            while (*p && *p != ';' && n < sizeof tmp - 1) tmp[n++] = *p++;
            tmp[n] = 0; simio_set_root(tmp);
        } else if (!strncmp(p, "ent=", 4)) { p += 4; g_ent = parse_u(&p); }
        else if (!strncmp(p, "kill=", 5)) { p += 5; g_kill_at = parse_u(&p); }
        else if (!strncmp(p, "f=", 2)) {
            p += 2; uint64_t v[5] = {0};
            for (int i = 0; i < 5; i++) { v[i] = parse_u(&p); if (*p == ':') p++; }
            simio_add_fault((uint32_t)v[0], (uint32_t)v[1], (uint32_t)v[2], v[3], v[4]);
        }
        while (*p && *p != ';') p++;
        if (*p == ';') p++;
    }
    if (logpath) {
        RESOLVE(open);
        g_logfd = r_open(logpath, O_WRONLY | O_CREAT | O_APPEND | O_CLOEXEC, 0644);
    }
    g_process_mode = 1;
    g_armed = 1;
}

/* ================= interposed calls ================= */

static int open_common(int which, int dirfd, const char *path, int flags, mode_t mode)
{
    RESOLVE(open); RESOLVE(open64); RESOLVE(openat); RESOLVE(openat64);
    int scoped = in_scope_thread() && (dirfd == AT_FDCWD) && path_in_scope(path);
    if (!scoped) {
        switch (which) {
        case 0: return r_open(path, flags, mode);
        case 1: return r_open64(path, flags, mode);
        case 2: return r_openat(dirfd, path, flags, mode);
        default: return r_openat64(dirfd, path, flags, mode);
        }
    }
    int wr = (flags & O_ACCMODE) != O_RDONLY || (flags & (O_CREAT | O_TRUNC));
    int isdir = (flags & O_DIRECTORY) != 0;
    struct callctx c;
    begin_call(&c, isdir ? C_OPENDIR : (wr ? C_OPEN_W : C_OPEN_R));
    int fd, err = 0;
    if (c.f && c.f->kind == F_ERRNO) { fd = -1; err = (int)c.f->a; }
    else { fd = r_open64(path, flags, mode); err = errno; }
    if (fd >= 0) track_fd(fd, isdir ? 3 : (wr ? 2 : 1), path);
    /* the descriptor NUMBER is not logged: it depends on what else the process has open at
       that instant (the harness' own watchdog reads /proc), not on the plan */
    end_call(&c, path, -1, 0, fd >= 0 ? 0 : -1, err, flags);
    errno = err;
    return fd;
}

int open(const char *path, int flags, ...)
{
    mode_t mode = 0;
    if (flags & (O_CREAT | O_TMPFILE)) { va_list ap; va_start(ap, flags); mode = va_arg(ap, mode_t); va_end(ap); }
    return open_common(0, AT_FDCWD, path, flags, mode);
}
int open64(const char *path, int flags, ...)
{
    mode_t mode = 0;
    if (flags & (O_CREAT | O_TMPFILE)) { va_list ap; va_start(ap, flags); mode = va_arg(ap, mode_t); va_end(ap); }
    return open_common(1, AT_FDCWD, path, flags, mode);
}
int openat(int dirfd, const char *path, int flags, ...)
{
    mode_t mode = 0;
    if (flags & (O_CREAT | O_TMPFILE)) { va_list ap; va_start(ap, flags); mode = va_arg(ap, mode_t); va_end(ap); }
    return open_common(2, dirfd, path, flags, mode);
}
int openat64(int dirfd, const char *path, int flags, ...)
{
    mode_t mode = 0;
    if (flags & (O_CREAT | O_TMPFILE)) { va_list ap; va_start(ap, flags); mode = va_arg(ap, mode_t); va_end(ap); }
    return open_common(3, dirfd, path, flags, mode);
}
int creat(const char *path, mode_t mode)
{
    return open_common(1, AT_FDCWD, path, O_CREAT | O_WRONLY | O_TRUNC, mode);
}

ssize_t read(int fd, void *buf, size_t n)
{
    RESOLVE(read);
    if (!(in_scope_thread() && fd >= 0 && fd < FD_MAX && g_fdcls[fd] == 1))
        return r_read(fd, buf, n);
    struct callctx c; begin_call(&c, C_READ);
    ssize_t res; int err = 0; size_t want = n;
    if (c.f && c.f->kind == F_ERRNO) { res = -1; err = (int)c.f->a; }
    else if (c.f && c.f->kind == F_EOF) { res = 0; }
    else {
        if (c.f && c.f->kind == F_SHORT && c.f->a >= 1 && c.f->a < want) want = (size_t)c.f->a;
        res = r_read(fd, buf, want); err = errno;
        if (res > 0 && c.f) {
            unsigned char *b = buf;
            if (c.f->kind == F_FLIP) b[c.f->a % (uint64_t)res] ^= (unsigned char)(c.f->b ? c.f->b : 1);
            else if (c.f->kind == F_GARBLE) b[c.f->a % (uint64_t)res] = (unsigned char)c.f->b;
            else if (c.f->kind == F_ZERO) {
                size_t s = (size_t)(c.f->a % (uint64_t)res), l = (size_t)c.f->b;
                if (s + l > (size_t)res) l = (size_t)res - s;
                memset(b + s, 0, l);
            }
        }
    }
    end_call(&c, 0, fd, (int64_t)n, res, err, 0);
    errno = err;
    return res;
}

static ssize_t write_common(int fd, const void *buf, size_t n, int cls)
{
    struct callctx c; begin_call(&c, cls);
    ssize_t res; int err = 0; size_t want = n;
    if (c.f && c.f->kind == F_ERRNO) { res = -1; err = (int)c.f->a; }
    else if (c.f && c.f->kind == F_SHORT && c.f->a == 0 && n > 0) { res = 0; } /* accepts nothing */
    else {
        if (c.f && c.f->kind == F_SHORT && c.f->a >= 1 && c.f->a < want) want = (size_t)c.f->a;
        res = r_write(fd, buf, want); err = errno;
    }
    end_call(&c, 0, fd, (int64_t)n, res, err, 0);
    errno = err;
    return res;
}

ssize_t write(int fd, const void *buf, size_t n)
{
    RESOLVE(write);
    if (!in_scope_thread()) return r_write(fd, buf, n);
    if (fd == 1) return write_common(fd, buf, n, C_WRITE_STDOUT);
    if (fd >= 0 && fd < FD_MAX && g_fdcls[fd] == 2) return write_common(fd, buf, n, C_WRITE);
    return r_write(fd, buf, n);
}

ssize_t writev(int fd, const struct iovec *iov, int cnt)
{
    RESOLVE(writev); RESOLVE(write);
    if (!in_scope_thread() || cnt <= 0) return r_writev(fd, iov, cnt);
    int tracked = fd == 1 || (fd >= 0 && fd < FD_MAX && g_fdcls[fd] == 2);
    if (!tracked) return r_writev(fd, iov, cnt);
    /* model as a write of the first non-empty buffer (a legal short writev) */
    for (int i = 0; i < cnt; i++)
        if (iov[i].iov_len)
            return write_common(fd, iov[i].iov_base, iov[i].iov_len, fd == 1 ? C_WRITE_STDOUT : C_WRITE);
    return 0;
}

static void unmodelled(const char *what, const char *path, int fd)
{
    g_unmodelled++;
    struct callctx c; c.seq = __atomic_fetch_add(&g_seq, 1, __ATOMIC_SEQ_CST);
    c.cls = C_OTHER; c.ord = __atomic_fetch_add(&g_ord[C_OTHER], 1, __ATOMIC_SEQ_CST); c.f = 0;
    char tmp[160], *p = tmp;
    p = put_s(p, "UNMODELLED:", 16); p = put_s(p, what, 16); *p++ = ':';
    if (path) p = put_s(p, rel(path), 100);
    *p = 0;
    end_call(&c, tmp, fd, 0, 0, 0, 0);
}

ssize_t readv(int fd, const struct iovec *iov, int cnt)
{
    RESOLVE(readv);
    if (in_scope_thread() && fd >= 0 && fd < FD_MAX && g_fdcls[fd] == 1) unmodelled("readv", 0, fd);
    return r_readv(fd, iov, cnt);
}
ssize_t pread64(int fd, void *buf, size_t n, off_t off)
{
    RESOLVE(pread64);
    if (in_scope_thread() && fd >= 0 && fd < FD_MAX && g_fdcls[fd] == 1) unmodelled("pread64", 0, fd);
    return r_pread64(fd, buf, n, off);
}
ssize_t pwrite64(int fd, const void *buf, size_t n, off_t off)
{
    RESOLVE(pwrite64);
    if (in_scope_thread() && fd >= 0 && fd < FD_MAX && g_fdcls[fd] == 2) unmodelled("pwrite64", 0, fd);
    return r_pwrite64(fd, buf, n, off);
}

int close(int fd)
{
    RESOLVE(close);
    if (!(in_scope_thread() && fd >= 0 && fd < FD_MAX && g_fdcls[fd])) return r_close(fd);
    struct callctx c; begin_call(&c, C_CLOSE);
    /* close is always executed; a plan may still make it REPORT an error (EIO on close) */
    int res = r_close(fd), err = errno;
    if (c.f && c.f->kind == F_ERRNO) { res = -1; err = (int)c.f->a; }
    end_call(&c, 0, fd, 0, res, err, 0);
    g_fdcls[fd] = 0; g_fdpath[fd][0] = 0;
    errno = err;
    return res;
}

/* ---- stat family ---- */
#define STAT_PROLOGUE(scoped_expr, passthrough)                     \
    if (!(in_scope_thread() && (scoped_expr))) return passthrough;  \
    struct callctx c; begin_call(&c, C_STAT);                       \
    int res, err = 0;                                               \
    if (c.f && c.f->kind == F_ERRNO) { res = -1; err = (int)c.f->a; } else

int statx(int dirfd, const char *path, int flags, unsigned mask, struct statx *buf)
{
    RESOLVE(statx);
    if (!r_statx) { errno = ENOSYS; return -1; }
    int byfd = (path && path[0] == 0 && (flags & AT_EMPTY_PATH));
    int scoped = in_scope_thread() &&
        (byfd ? (dirfd >= 0 && dirfd < FD_MAX && g_fdcls[dirfd]) : (dirfd == AT_FDCWD && path_in_scope(path)));
    if (!scoped) return r_statx(dirfd, path, flags, mask, buf);
    struct callctx c; begin_call(&c, C_STAT);
    int res, err = 0;
    if (c.f && c.f->kind == F_ERRNO) { res = -1; err = (int)c.f->a; }
    else {
        res = r_statx(dirfd, path, flags, mask, buf); err = errno;
        /* F_SHORT on a stat: the size reported for a regular file is at most a bytes although the
           content is all there (procfs-like files, FUSE, a file still growing): st_size is a hint */
        if (res == 0 && c.f && c.f->kind == F_SHORT && S_ISREG(buf->stx_mode) && buf->stx_size > c.f->a) buf->stx_size = c.f->a;
    }
    end_call(&c, byfd ? 0 : path, byfd ? dirfd : -1, 0, res, err, flags);
    errno = err; return res;
}
int stat(const char *path, struct stat *st)
{
    RESOLVE(stat);
    STAT_PROLOGUE(path_in_scope(path), r_stat(path, st)) { res = r_stat(path, st); err = errno; }
    end_call(&c, path, -1, 0, res, err, 0); errno = err; return res;
}
int stat64(const char *path, struct stat64 *st)
{
    RESOLVE(stat64);
    STAT_PROLOGUE(path_in_scope(path), r_stat64(path, st)) { res = r_stat64(path, st); err = errno; }
    end_call(&c, path, -1, 0, res, err, 0); errno = err; return res;
}
int lstat(const char *path, struct stat *st)
{
    RESOLVE(lstat);
    STAT_PROLOGUE(path_in_scope(path), r_lstat(path, st)) { res = r_lstat(path, st); err = errno; }
    end_call(&c, path, -1, 0, res, err, AT_SYMLINK_NOFOLLOW); errno = err; return res;
}
int lstat64(const char *path, struct stat64 *st)
{
    RESOLVE(lstat64);
    STAT_PROLOGUE(path_in_scope(path), r_lstat64(path, st)) { res = r_lstat64(path, st); err = errno; }
    end_call(&c, path, -1, 0, res, err, AT_SYMLINK_NOFOLLOW); errno = err; return res;
}
int fstat(int fd, struct stat *st)
{
    RESOLVE(fstat);
    STAT_PROLOGUE(fd >= 0 && fd < FD_MAX && g_fdcls[fd], r_fstat(fd, st)) { res = r_fstat(fd, st); err = errno;
        if (res == 0 && c.f && c.f->kind == F_SHORT && S_ISREG(st->st_mode) && (uint64_t)st->st_size > c.f->a) st->st_size = (off_t)c.f->a; }
    end_call(&c, 0, fd, 0, res, err, 0); errno = err; return res;
}
int fstat64(int fd, struct stat64 *st)
{
    RESOLVE(fstat64);
    STAT_PROLOGUE(fd >= 0 && fd < FD_MAX && g_fdcls[fd], r_fstat64(fd, st)) { res = r_fstat64(fd, st); err = errno;
        if (res == 0 && c.f && c.f->kind == F_SHORT && S_ISREG(st->st_mode) && (uint64_t)st->st_size > c.f->a) st->st_size = (off64_t)c.f->a; }
    end_call(&c, 0, fd, 0, res, err, 0); errno = err; return res;
}
int fstatat(int dirfd, const char *path, struct stat *st, int flags)
{
    RESOLVE(fstatat);
    STAT_PROLOGUE(dirfd == AT_FDCWD && path_in_scope(path), r_fstatat(dirfd, path, st, flags))
    { res = r_fstatat(dirfd, path, st, flags); err = errno; }
    end_call(&c, path, -1, 0, res, err, flags); errno = err; return res;
}
int fstatat64(int dirfd, const char *path, struct stat64 *st, int flags)
{
    RESOLVE(fstatat64);
    STAT_PROLOGUE(dirfd == AT_FDCWD && path_in_scope(path), r_fstatat64(dirfd, path, st, flags))
    { res = r_fstatat64(dirfd, path, st, flags); err = errno; }
    end_call(&c, path, -1, 0, res, err, flags); errno = err; return res;
}

/* ---- directories ---- */
#define MAX_DIRS 16
#define MAX_ENTS 256
struct simdir {
    DIR *d; int loaded; int n; int pos; uint64_t perm; int permuted;
    struct dirent64 ents[MAX_ENTS];
    char path[96];
};
static struct simdir g_dirs[MAX_DIRS];

static struct simdir *dir_find(DIR *d)
{
    for (int i = 0; i < MAX_DIRS; i++) if (g_dirs[i].d == d) return &g_dirs[i];
    return 0;
}

DIR *opendir(const char *path)
{
    RESOLVE(opendir);
    if (!(in_scope_thread() && path_in_scope(path))) return r_opendir(path);
    struct callctx c; begin_call(&c, C_OPENDIR);
    DIR *d = 0; int err = 0;
    if (c.f && c.f->kind == F_ERRNO) { err = (int)c.f->a; }
    else { d = r_opendir(path); err = errno; }
    if (d) {
        for (int i = 0; i < MAX_DIRS; i++) if (!g_dirs[i].d) {
            struct simdir *s = &g_dirs[i];
            s->d = d; s->loaded = 0; s->n = 0; s->pos = 0;
            s->permuted = (c.f && c.f->kind == F_PERM);
            s->perm = s->permuted ? c.f->a + c.ord * 0x9e3779b97f4a7c15ull : 0;
            const char *r = rel(path); size_t n = strlen(r); if (n > 95) n = 95;
            memcpy(s->path, r, n); s->path[n] = 0;
            break;
        }
    }
    end_call(&c, path, -1, 0, d ? 0 : -1, err, 0);
    errno = err;
    return d;
}

static void dir_load(struct simdir *s)
{
    RESOLVE(readdir64);
    struct dirent64 *e;
    s->n = 0;
    while (s->n < MAX_ENTS && (e = r_readdir64(s->d))) s->ents[s->n++] = *e;
    /* canonical order first (sorted by name) so that the permutation is a function of
       the plan only, not of tmpfs' internal order */
    for (int i = 1; i < s->n; i++) {
        struct dirent64 t = s->ents[i]; int j = i - 1;
        while (j >= 0 && strcmp(s->ents[j].d_name, t.d_name) > 0) { s->ents[j + 1] = s->ents[j]; j--; }
        s->ents[j + 1] = t;
    }
    if (s->permuted) {
        uint64_t x = s->perm | 1;
        for (int i = s->n - 1; i > 0; i--) {
            x ^= x << 13; x ^= x >> 7; x ^= x << 17;
            int j = (int)(x % (uint64_t)(i + 1));
            struct dirent64 t = s->ents[i]; s->ents[i] = s->ents[j]; s->ents[j] = t;
        }
    }
    s->loaded = 1;
}

struct dirent64 *readdir64(DIR *d)
{
    RESOLVE(readdir64);
    struct simdir *s = in_scope_thread() ? dir_find(d) : 0;
    if (!s) return r_readdir64(d);
    struct callctx c; begin_call(&c, C_READDIR);
    struct dirent64 *res = 0; int err = errno;
    if (c.f && c.f->kind == F_ERRNO) { err = (int)c.f->a; }
    else {
        if (!s->loaded) dir_load(s);
        if (s->pos < s->n) res = &s->ents[s->pos++];
    }
    {
        char tmp[200], *p = tmp;
        p = put_s(p, s->path, 95); *p++ = ':';
        p = put_s(p, res ? res->d_name : "<end>", 90); *p = 0;
        end_call(&c, tmp, -1, 0, res ? 1 : ((c.f && c.f->kind == F_ERRNO) ? -1 : 0), err, 0);
    }
    if (!res) errno = (c.f && c.f->kind == F_ERRNO) ? err : errno;
    return res;
}
struct dirent *readdir(DIR *d)
{   /* struct dirent == struct dirent64 on x86_64 glibc */
    return (struct dirent *)readdir64(d);
}
int closedir(DIR *d)
{
    RESOLVE(closedir);
    struct simdir *s = dir_find(d);
    if (s) s->d = 0;
    return r_closedir(d);
}

ssize_t readlink(const char *path, char *buf, size_t n)
{
    RESOLVE(readlink);
    if (!(in_scope_thread() && path_in_scope(path))) return r_readlink(path, buf, n);
    struct callctx c; begin_call(&c, C_READLINK);
    ssize_t res; int err = 0;
    if (c.f && c.f->kind == F_ERRNO) { res = -1; err = (int)c.f->a; }
    else { res = r_readlink(path, buf, n); err = errno; }
    end_call(&c, path, -1, (int64_t)n, res, err, 0);
    errno = err; return res;
}

/* ---- entropy ---- */
ssize_t getrandom(void *buf, size_t n, unsigned flags)
{
    RESOLVE(getrandom);
    if (!in_scope_thread()) return r_getrandom(buf, n, flags);
    struct callctx c; begin_call(&c, C_GETRANDOM);
    unsigned char *b = buf;
    for (size_t i = 0; i < n; i += 8) {
        uint64_t v = ent_next();
        size_t k = n - i < 8 ? n - i : 8;
        memcpy(b + i, &v, k);
    }
    end_call(&c, 0, -1, (int64_t)n, (int64_t)n, 0, (int)flags);
    return (ssize_t)n;
}

/* ---- mutating path calls: executed for real, but always logged (oracle O2 reads the log) ---- */
#define MUT1(cls, name, path, call)                                         \
    if (!(in_scope_thread() && path_in_scope(path))) return call;           \
    struct callctx c; begin_call(&c, cls);                                  \
    int res, err = 0;                                                       \
    if (c.f && c.f->kind == F_ERRNO) { res = -1; err = (int)c.f->a; }       \
    else { res = call; err = errno; }                                       \
    end_call(&c, path, -1, 0, res, err, 0); errno = err; return res;

int unlink(const char *path) { RESOLVE(unlink); MUT1(C_UNLINK, unlink, path, r_unlink(path)) }
int unlinkat(int dfd, const char *path, int fl) { RESOLVE(unlinkat); MUT1(C_UNLINK, unlinkat, path, r_unlinkat(dfd, path, fl)) }
int rmdir(const char *path) { RESOLVE(rmdir); MUT1(C_UNLINK, rmdir, path, r_rmdir(path)) }
int rename(const char *a, const char *b) { RESOLVE(rename); MUT1(C_RENAME, rename, b, r_rename(a, b)) }
int renameat(int ad, const char *a, int bd, const char *b) { RESOLVE(renameat); MUT1(C_RENAME, renameat, b, r_renameat(ad, a, bd, b)) }
int mkdir(const char *path, mode_t m) { RESOLVE(mkdir); MUT1(C_MKDIR, mkdir, path, r_mkdir(path, m)) }
int mkdirat(int dfd, const char *path, mode_t m) { RESOLVE(mkdirat); MUT1(C_MKDIR, mkdirat, path, r_mkdirat(dfd, path, m)) }
int truncate64(const char *path, off_t l) { RESOLVE(truncate64); MUT1(C_OPEN_W, truncate64, path, r_truncate64(path, l)) }
int symlink(const char *t, const char *path) { RESOLVE(symlink); MUT1(C_MKDIR, symlink, path, r_symlink(t, path)) }
int link(const char *t, const char *path) { RESOLVE(link); MUT1(C_MKDIR, link, path, r_link(t, path)) }
int ftruncate64(int fd, off_t l)
{
    RESOLVE(ftruncate64);
    if (in_scope_thread() && fd >= 0 && fd < FD_MAX && g_fdcls[fd]) unmodelled("ftruncate64", 0, fd);
    return r_ftruncate64(fd, l);
}
DIR *fdopendir(int fd)
{
    RESOLVE(fdopendir);
    if (in_scope_thread() && fd >= 0 && fd < FD_MAX && g_fdcls[fd]) unmodelled("fdopendir", 0, fd);
    return r_fdopendir(fd);
}
